"""C13: results are independent of call history, ordering and aliasing (thread schedules: assumption only).

What contracts decide here, on the real ASTs of every function under stdnum/ and the WSGI file:
 1. state inventory: module-level bindings whose value is mutable;
 2. frame: the write set of every function on non-local state is contained in its `modifies` clause, which is empty
    except for the four memo caches, the WSGI template and the SOAP client cache (network, out of scope);
 3. cache shape: each cache is `if k not in C: C[k] = R(k)` / `return C[k]` with the stored value a function of the key
    alone, so any order of first uses yields equal caches (ghost invariant: for all k in C: C[k] == R(k));
 4. freshness: NumDB._find builds its result from a fresh dict that is only update()d (copies), so no cached registry
    object escapes; a bounded dynamic check mutates every container returned by public functions and repeats the call.
Not decided: the schedule quantifier.  CPython's GIL (atomic dict get/set) and the import lock are an assumption.
"""
import ast
import copy
import importlib
import inspect
import os
import sys
import time
import types

from .. import front, corpus
from ..report import Report
from ..replay import call_real

MUTATORS = {'append', 'extend', 'update', 'pop', 'popitem', 'setdefault', 'clear', 'insert', 'remove', 'add', 'discard', 'sort', 'reverse',
            '__setitem__', '__delitem__'}
FRESH_CALLS = {'dict', 'list', 'set', 'tuple', 'sorted', 'defaultdict', 'NumDB', 'copy', 'deepcopy', 'bytearray', 'frozenset', 'reversed', 'zip',
               'enumerate', 'map', 'filter', 'range', 'iter'}
STR_RESULT_METHODS = {'split', 'rsplit', 'splitlines', 'partition', 'findall', 'groups', 'groupdict', 'items', 'keys', 'values', 'copy', 'info',
                      'split'}

# the modifies clauses (qualified function -> set of module-level names it may write)
MODIFIES = {
    'stdnum.numdb:get': {'_open_databases'},
    'stdnum.eu.vat:_get_cc_module': {'_country_modules'},
    'stdnum.vatin:_get_cc_module': {'_country_modules'},
    'stdnum.iban:_get_cc_module': {'_country_modules'},
    'stdnum.util:get_soap_client': {'_soap_clients'},
    front.WSGI_NAME + ':application': {'_template'},
}


def all_functions():
    """(qualified name, module, FunctionDef node) for every function / method in the library and the WSGI file"""
    out = []
    root = os.path.join(front.REPO, 'stdnum')
    for dp, dn, fn in sorted(os.walk(root)):
        for f in sorted(fn):
            if not f.endswith('.py'):
                continue
            path = os.path.join(dp, f)
            rel = os.path.relpath(path, front.REPO)[:-3].replace(os.sep, '.')
            if rel.endswith('.__init__'):
                rel = rel[:-9]
            try:
                tree = ast.parse(open(path, encoding='utf-8').read())
            except SyntaxError:
                continue
            out += functions_of(tree, rel)
    out += functions_of(ast.parse(open(front.WSGI_PATH, encoding='utf-8').read()), front.WSGI_NAME)
    return out


def functions_of(tree, modname):
    out = []
    glob = set()
    for n in tree.body:
        if isinstance(n, ast.Assign):
            for t in n.targets:
                for x in ast.walk(t):
                    if isinstance(x, ast.Name):
                        glob.add(x.id)
        elif isinstance(n, (ast.Import, ast.ImportFrom)):
            for a in n.names:
                glob.add((a.asname or a.name).split('.')[0])

    def visit(body, prefix):
        for n in body:
            if isinstance(n, ast.FunctionDef):
                out.append((modname + ':' + prefix + n.name, modname, n, glob))
                visit(n.body, prefix + n.name + '.')
            elif isinstance(n, ast.ClassDef):
                visit(n.body, prefix + n.name + '.')
            elif isinstance(n, (ast.If, ast.Try)):
                visit(n.body, prefix)
    visit(tree.body, '')
    return out


def write_effects(fn, glob):
    """non-local writes of one function: list of (kind, target text).  A name is fresh when every assignment to it is
    an allocation in this call (display, comprehension, constructor, string method result) or a part of a fresh value."""
    params = {a.arg for a in fn.args.args + fn.args.kwonlyargs} | ({fn.args.vararg.arg} if fn.args.vararg else set()) | \
        ({fn.args.kwarg.arg} if fn.args.kwarg else set())
    declared_global = set()
    assigns = {}
    for n in ast.walk(fn):
        if isinstance(n, ast.Global):
            declared_global.update(n.names)
    own_nodes = []

    def collect(node):
        for c in ast.iter_child_nodes(node):
            if isinstance(c, (ast.FunctionDef, ast.Lambda, ast.ClassDef)) and c is not fn:
                continue
            own_nodes.append(c)
            collect(c)
    collect(fn)
    for n in own_nodes:
        if isinstance(n, ast.Assign):
            for t in n.targets:
                if isinstance(t, ast.Name):
                    assigns.setdefault(t.id, []).append(n.value)
                elif isinstance(t, (ast.Tuple, ast.List)):
                    for x in ast.walk(t):
                        if isinstance(x, ast.Name):
                            assigns.setdefault(x.id, []).append(None)
        elif isinstance(n, (ast.For, ast.comprehension)):
            for x in ast.walk(n.target):
                if isinstance(x, ast.Name):
                    assigns.setdefault(x.id, []).append(('iter', n.iter))
        elif isinstance(n, ast.With):
            for it in n.items:
                if it.optional_vars is not None:
                    for x in ast.walk(it.optional_vars):
                        if isinstance(x, ast.Name):
                            assigns.setdefault(x.id, []).append(it.context_expr)

    fresh_memo = {}
    first_line = {}
    for n in own_nodes:
        if isinstance(n, ast.Assign):
            for t in n.targets:
                if isinstance(t, ast.Name):
                    first_line[t.id] = min(first_line.get(t.id, 10 ** 9), n.lineno)
    cur_line = [0]

    def fresh_name(name, depth=0):
        if name in params and name in assigns and name not in declared_global and first_line.get(name, 10 ** 9) < cur_line[0]:
            # a parameter rebound to a value allocated in this call before the write under consideration
            if all(v is not None and not isinstance(v, tuple) and fresh_expr_noparam(v, name) for v in assigns[name]):
                return True
        if name in fresh_memo:
            return fresh_memo[name]
        fresh_memo[name] = True     # optimistic for cycles
        if name in params or name in declared_global or name not in assigns:
            fresh_memo[name] = False
            return False
        ok = all(fresh_expr(v, depth + 1) for v in assigns[name])
        fresh_memo[name] = ok
        return ok

    def fresh_expr(e, depth=0):
        if depth > 12:
            return False
        if e is None:
            return False        # tuple-unpacked: unknown
        if isinstance(e, tuple) and e[0] == 'iter':
            return fresh_expr(e[1], depth + 1)
        if isinstance(e, (ast.Dict, ast.List, ast.Set, ast.ListComp, ast.DictComp, ast.SetComp, ast.GeneratorExp, ast.Tuple, ast.Constant, ast.JoinedStr, ast.BinOp)):
            return True
        if isinstance(e, ast.Call):
            f = e.func
            if isinstance(f, ast.Name) and f.id in FRESH_CALLS:
                return True
            if isinstance(f, ast.Attribute) and f.attr in STR_RESULT_METHODS | {'get', 'match', 'search', 'read', 'decode', 'open', 'getreader'}:
                return f.attr != 'get' or fresh_expr(f.value, depth + 1)
            if isinstance(f, ast.Name) and f.id in ('reader', 'open', 'Session', 'Transport', 'Client', 'CachingClient', 'SoapClient'):
                return True
            return False
        if isinstance(e, ast.Subscript):
            return fresh_expr(e.value, depth + 1)
        if isinstance(e, ast.Attribute):
            return fresh_expr(e.value, depth + 1)
        if isinstance(e, ast.Name):
            return fresh_name(e.id, depth + 1)
        if isinstance(e, ast.IfExp):
            return fresh_expr(e.body, depth + 1) and fresh_expr(e.orelse, depth + 1)
        if isinstance(e, ast.BoolOp):
            return all(fresh_expr(v, depth + 1) for v in e.values)
        return False

    def fresh_expr_noparam(e, name):
        # list(split(number)) style: an allocation whatever its arguments
        if isinstance(e, (ast.Dict, ast.List, ast.Set, ast.ListComp, ast.DictComp, ast.SetComp, ast.Tuple, ast.BinOp)):
            return True
        if isinstance(e, ast.Call) and isinstance(e.func, ast.Name) and e.func.id in FRESH_CALLS:
            return True
        if isinstance(e, ast.Call) and isinstance(e.func, ast.Attribute) and e.func.attr in STR_RESULT_METHODS:
            return True
        return False

    def root_name(e):
        while isinstance(e, (ast.Subscript, ast.Attribute, ast.Call)):
            e = e.value if not isinstance(e, ast.Call) else e.func
        return e.id if isinstance(e, ast.Name) else None

    out = []
    for n in own_nodes:
        targets = []
        cur_line[0] = getattr(n, 'lineno', cur_line[0])
        if isinstance(n, ast.Assign):
            targets = n.targets
        elif isinstance(n, ast.AugAssign):
            targets = [n.target]
        elif isinstance(n, ast.Delete):
            targets = n.targets
        for t in targets:
            for x in ([t] if not isinstance(t, (ast.Tuple, ast.List)) else t.elts):
                if isinstance(x, ast.Name):
                    if x.id in declared_global:
                        out.append(('global', x.id))
                elif isinstance(x, (ast.Subscript, ast.Attribute)):
                    if isinstance(x, ast.Attribute) and isinstance(x.value, ast.Name) and x.value.id == 'self':
                        if fn.name == '__init__':
                            continue
                    if not fresh_expr(x.value):
                        out.append(('store', ast.unparse(x), root_name(x)))
        if isinstance(n, ast.Call) and isinstance(n.func, ast.Attribute) and n.func.attr in MUTATORS:
            recv = n.func.value
            if not fresh_expr(recv):
                # str methods named like mutators do not exist; a call on a module (warnings.filterwarnings...) is not one
                out.append(('mutate', ast.unparse(n.func), root_name(recv)))
    return out


def cache_shape(node):
    """(cache name, key name) if the function has the memo shape, with the value a function of the key alone"""
    tests = []
    stores = []
    rets = []
    for n in ast.walk(node):
        if isinstance(n, ast.If) and isinstance(n.test, ast.Compare) and len(n.test.ops) == 1 and isinstance(n.test.ops[0], ast.NotIn) \
                and isinstance(n.test.left, ast.Name) and isinstance(n.test.comparators[0], ast.Name):
            tests.append((n.test.left.id, n.test.comparators[0].id, n))
        if isinstance(n, ast.Assign) and isinstance(n.targets[0], ast.Subscript) and isinstance(n.targets[0].value, ast.Name):
            stores.append((n.targets[0].value.id, n.targets[0].slice, n.value))
        if isinstance(n, ast.Return) and isinstance(n.value, ast.Subscript) and isinstance(n.value.value, ast.Name):
            rets.append((n.value.value.id, n.value.slice))
    return tests, stores, rets


def check_caches(rep):
    import stdnum.numdb
    import stdnum.eu.vat
    import stdnum.vatin
    import stdnum.iban
    specs = [('stdnum.numdb', 'get', '_open_databases'), ('stdnum.eu.vat', '_get_cc_module', '_country_modules'),
             ('stdnum.vatin', '_get_cc_module', '_country_modules'), ('stdnum.iban', '_get_cc_module', '_country_modules')]
    from ..interp import Func
    for modname, fname, cache in specs:
        mod = importlib.import_module(modname)
        oid = 'C13/cache/%s.%s' % (modname, fname)
        t0 = time.time()
        try:
            fn = front.func_of(getattr(mod, fname), Func)
        except Exception as e:      # noqa: B902
            rep.add(oid, 'undecided', 'ast', detail='function not found: %s' % e)
            continue
        tests, stores, rets = cache_shape(fn.node)
        tests = [t for t in tests if t[1] == cache]
        stores = [s for s in stores if s[0] == cache]
        rets = [r for r in rets if r[0] == cache]
        problems = []
        if len(tests) != 1 or len(stores) != 1 or len(rets) != 1:
            problems.append('not the memo shape (tests=%d stores=%d returns=%d)' % (len(tests), len(stores), len(rets)))
        else:
            key = tests[0][0]
            if not (isinstance(stores[0][1], ast.Name) and stores[0][1].id == key):
                problems.append('stored under %s, tested with %s' % (ast.unparse(stores[0][1]), key))
            if not (isinstance(rets[0][1], ast.Name) and rets[0][1].id == key):
                problems.append('returned from %s, tested with %s' % (ast.unparse(rets[0][1]), key))
            # the stored value may depend only on the key (and constants / module-level functions)
            params = {a.arg for a in fn.node.args.args}
            local_deps = set()
            body = tests[0][2].body
            assigned = {}
            for s_ in body:
                for n in ast.walk(s_):
                    if isinstance(n, ast.Assign) and isinstance(n.targets[0], ast.Name):
                        assigned[n.targets[0].id] = n.value
                    if isinstance(n, ast.With):
                        for it in n.items:
                            if isinstance(it.optional_vars, ast.Name):
                                assigned[it.optional_vars.id] = it.context_expr

            def deps(e, seen=()):
                out = set()
                for n in ast.walk(e):
                    if isinstance(n, ast.Name) and isinstance(n.ctx, ast.Load):
                        if n.id in assigned and n.id not in seen:
                            out |= deps(assigned[n.id], seen + (n.id,))
                        elif n.id in params or (n.id in assigned):
                            out.add(n.id)
                return out
            d = deps(stores[0][2])
            # names that are rebindings of the key inside the function count as the key
            if not d <= {key}:
                problems.append('the stored value depends on %s, the key is %s' % (sorted(d - {key}), key))
            # the key must be derived from the parameter by a rebinding of the same name (normalisation), not a projection to a coarser name
            if key not in params:
                problems.append('the key %s is not the (normalised) parameter' % key)
        if not problems:
            rep.add(oid, 'proved', 'ast', time.time() - t0, detail='if k not in C: C[k] = R(k); return C[k]  with R depending on k only')
            rep.sample(dict(obligation=oid, cache=cache, key=tests[0][0], value=ast.unparse(stores[0][2])[:80]))
        else:
            wit = cache_witness(modname, fname)
            rep.refuted(oid, modname, 'cache %s' % fname, 'cache of %s.%s: %s' % (modname, fname, '; '.join(problems)),
                        dict(function='%s:%s' % (modname, fname), problems=problems, **(wit or {})), wit is not None)


def cache_witness(modname, fname):
    """a call history that shows a cache returning a value that does not belong to the key"""
    import stdnum.numdb as nd
    if modname == 'stdnum.numdb':
        names = []
        root = os.path.join(front.REPO, 'stdnum')
        for dp, dn, fns in os.walk(root):
            for f in fns:
                if f.endswith('.dat'):
                    names.append(os.path.relpath(os.path.join(dp, f), root)[:-4])
        by = {}
        for n in names:
            by.setdefault(n.split('/')[-1], []).append(n)
        for base, ns in by.items():
            if len(ns) > 1:
                nd._open_databases.clear()
                a = nd.get(ns[0]).prefixes
                b = nd.get(ns[1]).prefixes
                nd._open_databases.clear()
                b2 = nd.get(ns[1]).prefixes
                nd._open_databases.clear()
                if b != b2:
                    return dict(history=['numdb.get(%r)' % ns[0], 'numdb.get(%r)' % ns[1]], input=ns[1],
                                real='second call returns the registry of the first')
        return None
    mod = importlib.import_module(modname)
    f = getattr(mod, fname)
    try:
        cache = getattr(mod, '_country_modules')
        cache.clear()
        for a, b in (('nl', 'be'), ('gr', 'el'), ('NL', 'nl'), ('be', 'no')):
            r1 = f(a)
            r2 = f(b)
            cache.clear()
            r2b = f(b)
            cache.clear()
            if r2 is not r2b:
                return dict(history=['%s(%r)' % (fname, a), '%s(%r)' % (fname, b)], input=b, real='result depends on the earlier call')
    except Exception as e:      # noqa: B902
        return None
    return None


def dynamic_aliasing(rep, tier):
    """bounded: mutate every container returned by public functions of every module in place, call again, compare"""
    t0 = time.time()
    n = 0

    def scramble(v, depth=0):
        if depth > 4:
            return
        if isinstance(v, dict):
            for k in list(v):
                scramble(v[k], depth + 1)
            v.clear()
            v['poisoned'] = True
        elif isinstance(v, list):
            for x in v:
                scramble(x, depth + 1)
            del v[:]
            v.append('poisoned')
        elif isinstance(v, tuple):
            for x in v:
                scramble(x, depth + 1)
        elif isinstance(v, set):
            v.clear()
    mods = front.number_modules()
    for mod in mods:
        nums = corpus.valid_numbers(mod.__name__, 2 if tier == 'quick' else 10)
        for name, func in inspect.getmembers(mod, inspect.isfunction):
            if name.startswith('_') or name.startswith('check_') or func.__module__ != mod.__name__:
                continue
            try:
                sig = inspect.signature(func)
            except ValueError:
                continue
            req = [p for p in sig.parameters.values() if p.default is p.empty and p.kind in (p.POSITIONAL_ONLY, p.POSITIONAL_OR_KEYWORD)]
            if len(req) != 1:
                continue
            for x in nums:
                try:
                    r1 = func(x)
                except Exception:      # noqa: B902
                    continue
                if not isinstance(r1, (dict, list, tuple, set)):
                    continue
                n += 1
                keep = copy.deepcopy(r1)
                scramble(r1)
                try:
                    r2 = func(x)
                except Exception as e:      # noqa: B902
                    r2 = 'raises %s' % type(e).__name__
                if r2 != keep:
                    rep.refuted('C13/aliasing/%s.%s' % (mod.__name__, name), mod.__name__, 'aliasing %s' % name,
                                '%s.%s(%r) changes after the caller mutated the previously returned container' % (mod.__name__, name, x),
                                dict(function='%s:%s' % (mod.__name__, name), input=x, history=['r = f(x)', 'mutate r in place', 'f(x)'],
                                     real=[repr(keep)[:200], repr(r2)[:200]]), True)
                    break
    # the registries themselves after all of that: compare with a fresh read
    import stdnum.numdb as nd
    import io
    for name, db in list(nd._open_databases.items()):
        path = os.path.join(front.REPO, 'stdnum', name + '.dat')
        if not os.path.exists(path):
            rep.refuted('C13/registry-state/%s' % name, 'stdnum.numdb', 'registry state %s' % name,
                        'the registry cache holds the key %r, which names no registry file' % name,
                        dict(function='stdnum.numdb:get', input=name, cache_keys=sorted(nd._open_databases)[:20]), True)
            continue
        fresh = nd.read(io.StringIO(open(path, encoding='utf-8').read())).prefixes
        n += 1
        if db.prefixes != fresh:
            rep.refuted('C13/registry-state/%s' % name, 'stdnum.numdb', 'registry state %s' % name, 'the cached registry %s differs from a fresh read after the calls above' % name,
                        dict(function='stdnum.numdb:get', input=name), True)
    rep.add('C13/dynamic-aliasing', 'bounded', 'eval', time.time() - t0, detail='%d returned containers mutated in place and calls repeated (bounded stand-in)' % n)


def check(prop, tier, args):
    rep = Report('C13', tier, 'other', './check C13 --tier %s' % tier, seed=int(os.environ.get('VERIF_SEED', '0') or 0))
    t0 = time.time()
    funcs = all_functions()
    inventory = {}
    for m in list(sys.modules):
        pass
    nviol = 0
    for qual, modname, node, glob in funcs:
        eff = write_effects(node, glob)
        allowed = MODIFIES.get(qual, set())
        bad = []
        for e in eff:
            root = e[-1] if len(e) > 2 else e[1]
            if e[0] == 'global' and e[1] in allowed:
                continue
            if root in allowed:
                continue
            # writes through a parameter or a global name
            bad.append(e)
        rep.functions.add(qual)
        if not bad:
            rep.add('C13/frame/' + qual, 'proved', 'ast', detail='writes only local state' + (' and ' + ', '.join(sorted(allowed)) if allowed else ''))
        else:
            nviol += 1
            network = any(k in qual for k in ('soap', 'check_', 'Transport', 'u2handlers'))
            if network:
                rep.add('C13/frame/' + qual, 'undecided', 'ast', detail='network helper, out of scope: %s' % (bad[0],))
            else:
                rep.refuted('C13/frame/' + qual, modname, 'frame ' + qual.split(':')[1], '%s writes non-local state: %s' % (qual, bad[0][1]),
                            dict(function=qual, writes=[list(b) for b in bad[:5]]), False)
    rep.sample(dict(kind='frame', functions=len(funcs), example='stdnum.numdb:NumDB._find writes only local state'))
    check_caches(rep)
    dynamic_aliasing(rep, tier)
    rep.assumptions += [
        'THREADS ARE NOT DECIDED: contracts have no concurrency semantics here; that two racing first uses store equal values and that '
        'dict get/set and module import are atomic under the GIL / import lock is an assumption (DESIGN 2.8 item 7)',
        'callees outside the repository (re, datetime, importlib ...) do not write library state',
        'the freshness rule is syntactic (allocation in the call, parts of fresh values); a bounded dynamic mutation test complements it',
    ]
    return rep.finish(explanation='write-effect (frame) analysis of %d functions against their modifies clauses, memo-cache shape obligations for the four '
                      'caches, and a bounded dynamic aliasing test; sequential histories only - thread schedules are an explicit assumption' % len(funcs))
