"""C01, C02, C15: obligations on every path of validate() of every number module (shared sweep)."""
import json
import os
import sys
import time

from .. import front, isets, absstr, pool, sweep
from ..report import Report, ROOT
from ..replay import call_real, is_validation_error

CACHE = os.path.join(ROOT, '.cache', 'sweep')


def _task(arg):
    modname, tier, nmax, limit = arg
    return sweep.sweep_module(modname, tier, nmax, ('C01', 'C02', 'C15'), limit)


def run_sweep(tier, modules=None, use_cache=True, log=True):
    """sweep results for all modules: dict module -> result.  Cached by content hash of the repository sources,
    the checker and the contracts (a hit means byte-identical inputs, so re-use is sound)."""
    isets.warm()
    absstr.table_lemmas()
    mods = modules or front.module_names()
    nmax = 40
    limit = 150 if tier == 'quick' else 1500
    t_start = time.time()
    h = front.tree_hash((tier, nmax, limit))
    d = os.path.join(CACHE, h)
    results = {}
    todo = []
    if use_cache and os.path.isdir(d):
        for m in mods:
            p = os.path.join(d, m + '.json')
            try:
                with open(p) as f:
                    results[m] = json.load(f)
                results[m]['from_cache'] = True
            except (OSError, ValueError):
                todo.append(m)
    else:
        todo = list(mods)
    if todo:
        os.makedirs(d, exist_ok=True)
        t0 = time.time()

        def prog(r):
            item, res, secs = r
            res = json.loads(json.dumps(res, default=repr))
            results[item[0]] = res
            if 'crash' not in res or not res.get('timeout'):
                os.makedirs(d, exist_ok=True)
                tmp = os.path.join(d, '.%s.%d.tmp' % (item[0], os.getpid()))
                with open(tmp, 'w') as f:
                    json.dump(res, f)
                os.replace(tmp, os.path.join(d, item[0] + '.json'))
            if log:
                print('  swept %-40s %6.1fs %s' % (item[0], secs, res.get('crash', '')[:80]), flush=True)
        # longest first
        pool.pool_map(_task, [(m, tier, nmax, limit) for m in todo], None, limit + 90 if tier == 'quick' else limit * 2 + 60, prog,
                      deadline=t_start + 420 if tier == 'quick' else None)
        if log:
            print('  sweep of %d modules: %.1fs' % (len(todo), time.time() - t0), flush=True)
        # keep only the newest few cache generations
        # keep the newest generations; never remove one that was touched in the last six hours (another run may be using it)
        gens = sorted((os.path.getmtime(os.path.join(CACHE, g)), g) for g in os.listdir(CACHE))
        for mt, g in gens[:-6]:
            if g != h and time.time() - mt > 6 * 3600:
                import shutil
                shutil.rmtree(os.path.join(CACHE, g), ignore_errors=True)
    return results


def still_fails_factory(prop):
    def still_fails(k):
        w = k.get('witness', {})
        qual = k['module'] + ':validate'
        res = call_real(qual, [w.get('input')], w.get('opts') or {}, w.get('today'))
        return violates(prop, k.get('kind'), res, qual, w)
    return still_fails


def violates(prop, kind, res, qual, w):
    from ..sweep import NATIONAL
    from ..isets import ISet, ASCII
    if prop == 'C01':
        if kind == 'bad return value':
            return res[0] == 'return' and (not isinstance(res[1], str) or res[1] == '')
        return res[0] == 'raise' and not is_validation_error(res)
    if prop == 'C15':
        allowed = ASCII.union(ISet.of(NATIONAL.get(qual.split(':')[0], '')))
        return res[0] == 'return' and isinstance(res[1], str) and any(not allowed.contains(ord(x)) for x in res[1])
    if prop == 'C02':
        if res[0] != 'return' or not isinstance(res[1], str):
            return False
        if res[1] != res[1].strip():
            return True
        r2 = call_real(qual, [res[1]], w.get('opts') or {}, w.get('today'))
        return not (r2[0] == 'return' and r2[1] == res[1])
    return False


def check(prop, tier, args):
    rep = Report(prop, tier, 'proof', './check %s --tier %s' % (prop, tier), seed=int(os.environ.get('VERIF_SEED', '0') or 0))
    use_cache = os.environ.get('VERIF_NO_CACHE', '') == ''     # the tier is part of the cache key
    mods = args.modules or None
    results = run_sweep(tier, mods, use_cache)
    sf = still_fails_factory(prop)
    cached = 0
    for m in sorted(results):
        r = results[m]
        if r.get('from_cache'):
            cached += 1
        if 'crash' in r:
            if r.get('timeout'):
                rep.add('%s/%s/sweep' % (prop, m), 'undecided', detail='module time limit')
                rep.bounded.append(m)
            else:
                rep.error('sweep of %s crashed: %s' % (m, r['crash']))
            continue
        if prop == 'C15' and m in sweep.GENERIC:
            continue
        rep.functions.add(m + ':validate')
        und = {}
        for u in r['undecided']:
            und.setdefault((u.get('opts') or '', str(u['n'])), []).append(u['why'])
        fnd = [f for f in r['findings'] if f['property'] == prop]
        fby = {}
        for f in fnd:
            fby.setdefault((repr(f.get('opts')) if f.get('opts') else '', str(f['n'])), []).append(f)
        for u in r['units']:
            key = (u['opts'], str(u['n']))
            oid = '%s/%s/%s/len=%s' % (prop, m, u['opts'] or 'defaults', u['n'])
            whys = [w for w in und.get(key, []) if prop in w or not w.startswith('C')]
            if prop != 'C02':
                whys = [w for w in whys if not w.startswith('C02')]
            if prop != 'C15':
                whys = [w for w in whys if not w.startswith('C15')]
            if key in fby:
                continue        # handled below, one obligation per finding
            if u['status'] != 'ok' or whys:
                rep.add(oid, 'undecided', detail=(whys or [u['status']])[0][:120])
            elif prop != 'C01' and u['accept'] == 0:
                # no accepting path at this length: the post-condition holds vacuously; counted, with that detail
                rep.add(oid, 'proved', detail='no accepting path (all strings of this length are rejected)')
            else:
                rep.add(oid, 'proved', secs=u['secs'], detail='%d paths, %d accepting' % (u['paths'], u['accept']))
        if any(u2['n'] == 'long' and u2['status'] != 'ok' for u2 in r['units']) or und:
            if m not in rep.bounded:
                rep.bounded.append(m)
        for f in fnd:
            if str(f['key']).startswith('bounded: '):
                # the same defect may be met by the symbolic sweep or, when that ran out of time, by the bounded stand-in: a listed
                # finding of the same module, kind and (for C01) exception class is the same finding
                import re as _re
                tok = _re.split(r'[\s@]', f['key'][9:])[0] if f['kind'] == 'non-ValidationError' else None
                for k_ in rep.known:
                    if k_['module'] == m and k_.get('kind') == f['kind'] and k_.get('status', 'known') == 'known' and \
                            (tok is None or _re.split(r'[\s@]', k_['key'].replace('bounded: ', ''))[0] == tok):
                        f = dict(f, key=k_['key'])
                        break
            oid = '%s/%s/%s/%s' % (prop, m, f['kind'], f['key'])
            f2 = dict(f)
            rep.refuted(oid, m, f['key'], '%s: %s' % (f['kind'], f['key']),
                        dict(function=m + ':validate', kind=f['kind'], input=f.get('input'), opts=f.get('opts'), today=f.get('today'),
                             real=f.get('real'), solver='z3 model of the path condition', approx=f.get('approx'),
                             approx_why=f.get('approx_why')),
                        bool(f.get('reproduced')), sf, approx=bool(f.get('approx')))
        if r.get('stats', {}).get('bounded_inputs'):
            rep.add('%s/%s/bounded-stand-in' % (prop, m), 'bounded', 'eval', detail='%d generated inputs through the real validate() (run-time contract check)' % r['stats']['bounded_inputs'])
        for s in r.get('samples', [])[:1]:
            rep.sample(dict(module=m, **s))
    rep.extra['modules'] = len(results)
    rep.extra['modules_from_cache'] = cached
    rep.extra['paths_explored'] = sum(r.get('stats', {}).get('paths', 0) for r in results.values())
    rep.extra['accepting_paths'] = sum(r.get('stats', {}).get('accept_paths', 0) for r in results.values())
    rep.extra['solver_checks'] = sum(r.get('stats', {}).get('checks', 0) for r in results.values())
    rep.extra['unary_domain_decisions'] = sum(r.get('stats', {}).get('fast', 0) for r in results.values())
    rep.assumptions += [
        'objects passed as number raise only Exception subclasses from their special methods; MemoryError/RecursionError out of scope',
        'clean() contract (result ranges over strings over image(g) minus deletechars) - proved against the body by C14',
        'NumDB lookups use the declarative spec_find - proved equal to NumDB._find by C10',
        'strings longer than 40 characters are covered by the LongStr abstraction: a refutation there must replay to count',
    ]
    return rep.finish()
