"""C17: single typing errors in check-digit protected identifiers are rejected.

Relational post-condition of validate() for the listed modules: on every accepting path (value v), for every position i
and a fresh character q of the same class as v[i] (digit/digit, letter/letter) with q != v[i], validate(v[i:=q]) must
raise on every path; for the transposition list the same with v[i], v[i+1] swapped and different.  Formats that
delegate to ISO 7064 Mod 97-10 use the C06 lemmas (substitution / adjacent transposition change the checksum) as the
callee's contract; the caller obligation is that the two strings handed to the algorithm differ in exactly that way.
"""
import importlib
import os
import sys
import time
import z3

from .. import front, accept, corpus
from ..interp import Func
from ..sym import FixedStr, LongStr, AbstractStr, tostr, Not, Or, And, in_set, simp, is_sym
from ..isets import ISet, DIGITS
from ..ctx import Raise, Unsupported
from ..explore import witness_string, today_of
from ..report import Report
from ..replay import call_real

LETTERS = ISet([(65, 90)])
SUBST = ['stdnum.isbn', 'stdnum.ean', 'stdnum.issn', 'stdnum.ismn', 'stdnum.imei', 'stdnum.isni', 'stdnum.iban', 'stdnum.lei', 'stdnum.iso11649',
         'stdnum.grid', 'stdnum.ca.sin', 'stdnum.fr.siren', 'stdnum.il.idnr', 'stdnum.se.orgnr', 'stdnum.in_.aadhaar', 'stdnum.in_.vid',
         'stdnum.hr.oib', 'stdnum.de.idnr', 'stdnum.de.vat',
         # further national numbers whose whole digit string is protected by Luhn / ISO 7064 (list fixed on the pinned tree)
         'stdnum.no.kontonr', 'stdnum.gr.amka', 'stdnum.it.iva', 'stdnum.rs.pib', 'stdnum.za.idnr', 'stdnum.gn.nifp', 'stdnum.il.hp', 'stdnum.za.tin']
TRANSP = ['stdnum.isbn', 'stdnum.issn', 'stdnum.isni', 'stdnum.iban', 'stdnum.lei', 'stdnum.iso11649', 'stdnum.in_.aadhaar', 'stdnum.in_.vid']
# ISBN-13 (EAN) is not claimed for transpositions, ISBN-10 is: lengths
TRANSP_LENGTHS = {'stdnum.isbn': {9, 10}}
# formats where only some lengths are protected by the algorithm the property names
ONLY_LENGTHS = {'stdnum.imei': {15}, 'stdnum.no.kontonr': {7}}


def checker_factory(modname):
    mod = importlib.import_module(modname)
    vf = front.func_of(mod.validate, Func)

    def checker(sw, p, v, opts, n):
        vs = tostr(v)
        L = len(vs)
        if modname in ONLY_LENGTHS and L not in ONLY_LENGTHS[modname]:
            return
        if opts and any(val is False for val in opts.values()) and modname != 'stdnum.iban':
            pass
        if modname == 'stdnum.isbn' and opts.get('convert'):
            return
        kinds = [('subst', i) for i in range(L)]
        if modname in TRANSP and (modname not in TRANSP_LENGTHS or L in TRANSP_LENGTHS[modname]):
            kinds += [('transp', i) for i in range(L - 1)]
        for kind, i in kinds:
            def run(I, ctx, kind=kind, i=i):
                chars = list(vs.chars)
                if kind == 'subst':
                    c = chars[i]
                    d = I._dom(c)
                    if d.subset(DIGITS):
                        q = ctx.fresh_char(DIGITS, 'q')
                    elif d.subset(LETTERS):
                        q = ctx.fresh_char(LETTERS, 'q')
                    else:
                        if ctx.branch(in_set(c, DIGITS)):
                            q = ctx.fresh_char(DIGITS, 'q')
                        elif ctx.branch(in_set(c, LETTERS)):
                            q = ctx.fresh_char(LETTERS, 'q')
                        else:
                            return 'skip'
                    ctx.assume(Not(in_set(q, ISet([(c, c)]))) if isinstance(c, int) else (q != c))
                    chars[i] = q
                else:
                    a, b = chars[i], chars[i + 1]
                    if not (I._dom(a).subset(DIGITS) and I._dom(b).subset(DIGITS)):
                        if not ctx.branch(And(in_set(a, DIGITS), in_set(b, DIGITS))):
                            return 'skip'
                    if isinstance(a, int) and isinstance(b, int):
                        if a == b:
                            return 'skip'
                    else:
                        ctx.assume((a != b) if (is_sym(a) or is_sym(b)) else True)
                    chars[i], chars[i + 1] = b, a
                ctx.altered = FixedStr(chars)
                return I.call(vf, [FixedStr(chars)], dict(opts), {}, vf.module)
            oid = 'len=%s/%s@%d' % (n, kind, i)
            try:
                paths, status = sw.closure(p, run, budget=800, time_limit=45)
            except Unsupported as u:
                sw.undecided.append(dict(n=n, why='%s: %s' % (kind, u)))
                continue
            partial = status != 'ok'
            if partial:
                sw.undecided.append(dict(n=n, why='%s@%d: closure budget' % (kind, i)))
            ok = True
            unknown = False
            for ctx, r in paths:
                if isinstance(r, Raise) or r == 'skip':
                    continue
                res, m = ctx.check_final()
                if res == z3.unsat:
                    continue
                if res == z3.unknown:
                    unknown = True
                    continue
                m = m or ctx.s.model()
                vx = witness_string(ctx, vs, m)
                x2 = witness_string(ctx, ctx.altered, m)
                td = today_of(ctx, m)
                r1 = call_real(modname + ':validate', [vx], opts, td)
                r2 = call_real(modname + ':validate', [x2], opts, td)
                rep_ = r1[0] == 'return' and r2[0] == 'return' and vx != x2
                ok = False
                sw.finding('typing error accepted', '%s at position %d of %d' % ('substitution' if kind == 'subst' else 'adjacent transposition', i, L),
                           input=vx, altered=x2, opts=opts, today=td, approx=ctx.approx or bool(getattr(ctx, 'soft', None)), real=[list(r1[:2]), list(r2[:2])], reproduced=rep_)
            sw.obligations.append((oid, 'undecided' if ((unknown or partial) and ok) else ('proved' if ok else 'refuted'), '%d paths' % len(paths)))
        if not sw.samples:
            sw.samples.append(dict(n=n, obligations_per_accepting_path=len(kinds)))
    return checker


def _task(arg):
    modname, lengths, tier = arg
    try:
        sw = accept.AcceptSweep(modname, lengths, checker_factory(modname), tier, 150 if tier == 'quick' else 2500, 'C17')
        return sw.run()
    except Exception as e:      # noqa: B902
        import traceback
        return dict(module=modname, crash='%s: %s' % (type(e).__name__, str(e)[:200]), tb=traceback.format_exc()[-1200:])


def still_fails(k):
    w = k.get('witness', {})
    m = k['module']
    r1 = call_real(m + ':validate', [w.get('input')], w.get('opts'), w.get('today'))
    r2 = call_real(m + ':validate', [w.get('altered')], w.get('opts'), w.get('today'))
    return r1[0] == 'return' and r2[0] == 'return'


def bounded(rep, tier):
    """exhaustive neighbourhood of corpus numbers on the real code (bounded stand-in)"""
    t0 = time.time()
    n = 0
    for m in SUBST:
        mod = importlib.import_module(m)
        hit = set()
        for x in corpus.valid_numbers(m, 6 if tier == 'quick' else 40) + corpus.synth_valid(m, 12 if tier == 'quick' else 200, int(os.environ.get('VERIF_SEED', '0') or 0)):
            if hit:
                break
            try:
                v = mod.validate(x)
            except Exception:      # noqa: B902
                continue
            if m in ONLY_LENGTHS and len(v) not in ONLY_LENGTHS[m]:
                continue
            for i, c in enumerate(v):
                alts = '0123456789' if c.isdigit() else 'ABCDEFGHIJKLMNOPQRSTUVWXYZ' if c.isalpha() and c.isascii() else ''
                for q in alts:
                    if q == c:
                        continue
                    n += 1
                    y = v[:i] + q + v[i + 1:]
                    if mod.is_valid(y):
                        rep.refuted('C17/%s/corpus' % m, m, 'corpus substitution', 'substitution accepted: %r -> %r' % (v, y),
                                    dict(function=m + ':validate', input=v, altered=y), True, still_fails)
                        hit.add('s')
                        break
                if hit:
                    break
            if m in TRANSP and (m not in TRANSP_LENGTHS or len(v) in TRANSP_LENGTHS[m]):
                for i in range(len(v) - 1):
                    if v[i] != v[i + 1] and v[i].isdigit() and v[i + 1].isdigit():
                        n += 1
                        y = v[:i] + v[i + 1] + v[i] + v[i + 2:]
                        if mod.is_valid(y):
                            rep.refuted('C17/%s/corpus-transposition' % m, m, 'corpus transposition', 'adjacent transposition accepted: %r -> %r' % (v, y),
                                        dict(function=m + ':validate', input=v, altered=y), True, still_fails)
                            break
    rep.add('C17/corpus', 'bounded', 'eval', time.time() - t0, detail='%d single edits of corpus numbers on the real code (bounded stand-in)' % n)
    # the formats above delegate to the generic algorithm modules, whose guarantees (C06) are used here as callee contracts:
    # the exhaustive short-string net of C06 is run here too, so that a broken generic module is reported under this property
    from . import c06
    c06.bounded_native(rep, tier)


def check(prop, tier, args):
    rep = Report('C17', tier, 'proof', './check C17 --tier %s' % tier, seed=int(os.environ.get('VERIF_SEED', '0') or 0))
    mods = [m for m in SUBST if not args.modules or m in args.modules]
    units = accept.accepting_units(modules=mods)
    items = [(m, sorted({n for o, n in units.get(m, []) if n != 'long'}), tier) for m in mods if m in units]
    res = accept.run_modules(_task, items, 240 if tier == 'quick' else 5000)
    for m in sorted(res):
        r = res[m]
        rep.functions.add(m + ':validate')
        if 'crash' in r:
            if r.get('timeout'):
                rep.add('C17/%s' % m, 'undecided', detail='time limit')
            else:
                rep.error('C17 sweep of %s crashed: %s' % (m, r['crash']))
            continue
        for f in r['findings']:
            oid = 'C17/%s/%s' % (m, f['key'])
            rep.refuted(oid, m, f['key'], f['kind'] + ': ' + f['key'],
                        dict(function=m + ':validate', input=f.get('input'), altered=f.get('altered'), opts=f.get('opts'), today=f.get('today'), real=f.get('real')),
                        bool(f.get('reproduced')), still_fails, approx=bool(f.get('approx')) or not f.get('reproduced'))
        seen = {}
        for oid, st, detail in r['obligations']:
            key = 'C17/%s/%s' % (m, oid)
            prev = seen.get(key)
            if st == 'refuted' or prev == 'refuted':
                seen[key] = 'refuted'
            elif st == 'undecided' or prev == 'undecided':
                seen[key] = 'undecided'
            else:
                seen[key] = 'proved'
        for key, st in seen.items():
            if st == 'proved':
                rep.add(key, 'proved')
            elif st == 'undecided':
                rep.add(key, 'undecided', detail='solver unknown / budget')
        if r['undecided']:
            rep.add('C17/%s/other' % m, 'undecided', detail='; '.join(sorted({u['why'][:70] for u in r['undecided']}))[:300])
            rep.bounded.append(m)
        for s in r.get('samples', []):
            rep.sample(dict(module=m, **s))
    bounded(rep, tier)
    rep.assumptions += ['Mod 97-10 consumers (IBAN, LEI, ISO 11649): C06 lemmas (substitution / adjacent digit transposition change the residue) are used as the callee contract',
                        'same class = ASCII digit for digit, A-Z for letter (the canonical alphabets of the listed formats)']
    return rep.finish()
