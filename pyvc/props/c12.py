"""C12: derived attributes are total and consistent on valid numbers.

For every (module, getter) pair discovered mechanically, on every accepting path of validate() (value v) the getter is
executed symbolically on v under the path condition, with a symbolic system date: every path must return or raise a
ValidationError; a returned date is a calendar date by the contract of datetime.date and must agree with
get_birth_year/get_birth_month; gender is 'M' or 'F' (or None); ''.join(split(v)) == v.
"""
import importlib
import inspect
import os
import sys
import time
import z3

from .. import front, accept, corpus
from ..interp import Func
from ..sym import FixedStr, LongStr, AbstractStr, SymDate, tostr, str_eq, Not, Or, simp, is_sym, toz3
from ..ctx import Raise, Unsupported
from ..report import Report
from ..replay import call_real, is_validation_error

SKIP = {'get_soap_client', 'get_cc_module', 'get_number_modules', 'get_module_name', 'get_module_description'}


def getters(mod):
    out = []
    for name, func in inspect.getmembers(mod, inspect.isfunction):
        if name in SKIP or name.startswith('_') or name.startswith('check_'):
            continue
        if not (name.startswith('get_') or name in ('info', 'split') or name.endswith('_type') or (name.startswith('is_') and name != 'is_valid')):
            continue
        if (func.__module__ or '') != mod.__name__ and not (func.__module__ or '').startswith('stdnum'):
            continue
        try:
            sig = inspect.signature(func)
        except ValueError:
            continue
        req = [p.name for p in sig.parameters.values() if p.default is p.empty]
        if req == ['number']:
            out.append((name, func))
    return out


def century_rule(kind, v, yy):
    """century designated by the number under the Danish / Norwegian rules (None: none designated)"""
    if kind == 'cpr':
        c7 = int(v[6])
        return 1900 if c7 <= 3 else ((2000 if yy <= 36 else 1900) if c7 in (4, 9) else (2000 if yy <= 57 else 1800))
    iii = int(v[6:9])
    if iii < 500:
        return 1900
    if iii < 750 and yy >= 54:
        return 1800
    if yy < 40:
        return 2000
    if iii >= 900:
        return 1900
    return None


def native_failure(modname, gname, x, opts, today):
    """-> description if the getter misbehaves on validate(x) on the real code"""
    rv = call_real(modname + ':validate', [x], opts, today)
    if rv[0] != 'return':
        return None
    r = call_real('%s:%s' % (modname, gname), [rv[1]], None, today)
    if r[0] == 'raise' and not is_validation_error(r):
        return '%s(%r) raises %s: %s' % (gname, rv[1], r[1], r[2][:60])
    if r[0] == 'return' and gname == 'get_birth_date' and r[1] is not None:
        from contracts.birthdates import RULES
        rule = RULES.get(modname)
        v = rv[1]
        d = r[1]
        if rule and hasattr(d, 'year'):
            try:
                yy, mm, dd = int(v[rule[0][0]:rule[0][1]]), int(v[rule[1][0]:rule[1][1]]), int(v[rule[2][0]:rule[2][1]])
                red = {'id': lambda x: x, 'mod20': lambda x: x % 20, 'mod50mod20': lambda x: (x % 50) % 20, 'mod40': lambda x: x % 40}
                ymod = 10 ** (rule[0][1] - rule[0][0])
                if d.year % ymod != yy or d.month != red[rule[3]](mm) or d.day != red[rule[4]](dd):
                    return 'get_birth_date(%r) = %s does not agree with the date digits of the number' % (v, d)
                if rule[5] == 'pesel' and d.year - d.year % 100 != (1800 if mm // 20 == 4 else 1900 + 100 * (mm // 20)):
                    return 'get_birth_date(%r) = %s does not agree with the century marker in the month digits' % (v, d)
                if rule[5] == 'egn' and d.year - d.year % 100 != {1: 1800, 2: 2000}.get(mm // 20, 1900):
                    return 'get_birth_date(%r) = %s does not agree with the century marker in the month digits' % (v, d)
                if isinstance(rule[5], dict) and v[rule[5]['at']] in rule[5]['map'] and d.year - d.year % 100 != rule[5]['map'][v[rule[5]['at']]]:
                    return 'get_birth_date(%r) = %s does not agree with the century marker %r of the number' % (v, d, v[rule[5]['at']])
                if rule[5] == 'emso' and d.year != (2000 if yy < 800 else 1000) + yy:
                    return 'get_birth_date(%r) = %s does not agree with the three-digit year of the number' % (v, d)
                if rule[5] in ('cpr', 'fnr'):
                    want = century_rule(rule[5], v, yy)
                    if want is not None and d.year - d.year % 100 != want:
                        return 'get_birth_date(%r) = %s does not agree with the century rule of the format (%d)' % (v, d, want)
            except ValueError:
                pass
        for other, attr in (('get_birth_year', 'year'), ('get_birth_month', 'month')):
            import importlib as _il
            m_ = _il.import_module(modname)
            if hasattr(m_, other) and hasattr(d, attr):
                o = call_real('%s:%s' % (modname, other), [rv[1]], None, today)
                if o[0] == 'return' and o[1] is not None and o[1] != getattr(d, attr):
                    return 'get_birth_date(%r) = %s but %s() = %r' % (v, d, other, o[1])
    if r[0] == 'return' and gname == 'get_gender' and r[1] not in ('M', 'F', None):
        return 'get_gender returns %r' % (r[1],)
    if r[0] == 'return' and gname == 'split' and ''.join(r[1]) != rv[1]:
        return 'split() parts %r do not concatenate to %r' % (r[1], rv[1])
    return None


def checker_factory(modname):
    mod = importlib.import_module(modname)
    gs = [(n, front.func_of(f, Func)) for n, f in getters(mod)]
    E = importlib.import_module('stdnum.exceptions')
    by = dict(gs)

    def checker(sw, p, v, opts, n):
        for gname, gf in gs:
            def run(I, ctx):
                r = I.call(gf, [v], {}, {}, gf.module)
                extra = None
                if gname == 'get_birth_date' and isinstance(r, SymDate):
                    extra = {}
                    from contracts.birthdates import RULES
                    rule = RULES.get(modname)
                    if rule:
                        chars = tostr(v).chars
                        yy = I.to_int(FixedStr(chars[rule[0][0]:rule[0][1]]))
                        mm = I.to_int(FixedStr(chars[rule[1][0]:rule[1][1]]))
                        dd = I.to_int(FixedStr(chars[rule[2][0]:rule[2][1]]))
                        red = {'id': lambda x: x, 'mod20': lambda x: x % 20, 'mod50mod20': lambda x: (x % 50) % 20, 'mod40': lambda x: x % 40}
                        ymod = 10 ** (rule[0][1] - rule[0][0])
                        extra['the year digits'] = (r.y % ymod if ymod < 10000 else r.y, yy)
                        extra['the month digits'] = (r.m, red[rule[3]](mm))
                        extra['the day digits'] = (r.d, red[rule[4]](dd))
                        if rule[5] == 'pesel':
                            k = mm / 20 if is_sym(mm) else mm // 20
                            extra['the century marker'] = (r.y - r.y % 100, z3.If(k == 4, 1800, 1900 + 100 * k) if is_sym(k) else (1800 if k == 4 else 1900 + 100 * k))
                        elif rule[5] == 'egn':
                            k = mm / 20 if is_sym(mm) else mm // 20
                            extra['the century marker'] = (r.y - r.y % 100, z3.If(k == 1, 1800, z3.If(k == 2, 2000, 1900)) if is_sym(k) else {1: 1800, 2: 2000}.get(k, 1900))
                        elif isinstance(rule[5], dict):
                            mk = chars[rule[5]['at']]
                            cent = r.y - r.y % 100
                            if isinstance(mk, int):
                                want = rule[5]['map'].get(chr(mk))
                                if want is not None:
                                    extra['the century marker'] = (cent, want)
                            else:
                                e_ = cent
                                for ch_, c100 in sorted(rule[5]['map'].items()):
                                    e_ = z3.If(mk == ord(ch_), c100, e_)
                                extra['the century marker'] = (cent, e_)
                        elif rule[5] in ('cpr', 'fnr'):
                            cent = r.y - r.y % 100
                            if rule[5] == 'cpr':
                                c7 = I.to_int(FixedStr(chars[6:7]))
                                want = z3.If(c7 <= 3, 1900, z3.If(z3.Or(c7 == 4, c7 == 9), z3.If(yy <= 36, 2000, 1900), z3.If(yy <= 57, 2000, 1800)))
                            else:
                                iii = I.to_int(FixedStr(chars[6:9]))
                                want = z3.If(iii < 500, 1900, z3.If(z3.And(iii < 750, yy >= 54), 1800, z3.If(yy < 40, 2000, z3.If(iii >= 900, 1900, cent))))
                            extra['the century rule'] = (cent, want)
                        elif rule[5] == 'emso':
                            extra['the three-digit year'] = (r.y, (z3.If(yy < 800, 2000, 1000) + yy) if is_sym(yy) else (2000 if yy < 800 else 1000) + yy)
                    for other, attr in (('get_birth_year', 'y'), ('get_birth_month', 'm')):
                        if other in by:
                            try:
                                extra[other] = (I.call(by[other], [v], {}, {}, by[other].module), getattr(r, attr))
                            except Raise as e2:
                                extra[other] = ('raises', e2.cls.__name__)
                return (r, extra)
            oid = 'len=%s/%s' % (n, gname)
            try:
                u0 = getattr(sw, 'unknowns', 0)
                paths, status = sw.closure(p, run, budget=300, time_limit=30)
            except Unsupported as u:
                sw.undecided.append(dict(n=n, why='%s: outside the subset: %s' % (gname, u)))
                continue
            partial = status != 'ok'
            if partial:
                sw.undecided.append(dict(n=n, why='%s: closure budget' % gname))
            ok = True
            for ctx, r in paths:
                extra_cond = None
                what = None
                if isinstance(r, Raise):
                    if issubclass(r.cls, E.ValidationError):
                        continue
                    what = '%s raises %s (%s)' % (gname, r.cls.__name__, r.why[:50])
                else:
                    val, extra = r
                    if gname == 'get_gender' and val is not None:
                        sv = tostr(val) if isinstance(val, (str, FixedStr)) else None
                        if sv is None:
                            what = 'get_gender returns a non-string'
                        else:
                            c = Or(str_eq(sv, 'M'), str_eq(sv, 'F'))
                            if not (c is True or (c is not False and ctx.entails(c))):
                                what = "get_gender returns something other than 'M' / 'F'"
                                extra_cond = None if c is False else Not(c)
                    elif gname == 'split' and isinstance(val, (list, tuple)):
                        chars = []
                        good = True
                        for part in val:
                            if not isinstance(part, (str, FixedStr)):
                                good = False
                                break
                            chars += tostr(part).chars
                        c = str_eq(FixedStr(chars), v) if good else False
                        if not (c is True or (c is not False and ctx.entails(c))):
                            what = 'split() parts do not concatenate to the number'
                            extra_cond = None if c is False else Not(c)
                    elif extra:
                        for other, pair in extra.items():
                            if isinstance(pair[0], str) and pair[0] == 'raises':
                                continue
                            a, b = pair
                            c = (a == b)
                            if isinstance(c, bool):
                                if not c:
                                    what = 'get_birth_date disagrees with %s' % other.replace('get_birth_year', 'get_birth_year()').replace('get_birth_month', 'get_birth_month()')
                            elif not ctx.entails(c):
                                what = 'get_birth_date disagrees with %s' % other.replace('get_birth_year', 'get_birth_year()').replace('get_birth_month', 'get_birth_month()')
                                extra_cond = z3.Not(c)
                if what is None:
                    continue
                w = sw.witness(ctx, p.ctx.primary, extra_cond)
                if w is None:
                    continue
                x, today = w
                d = native_failure(modname, gname, x, opts, today)
                ok = False
                sw.finding('getter misbehaves', '%s: %s' % (gname, what.split(' (')[0]), input=x, opts=opts, getter=gname, today=today,
                           approx=ctx.approx or bool(getattr(ctx, 'soft', None)), real=d, reproduced=d is not None)
            if not (partial and ok):
                sw.obligations.append((oid, ('undecided' if getattr(sw, 'unknowns', 0) > u0 else 'proved') if ok else 'refuted', '%d paths' % len(paths)))
        if gs and not sw.samples:
            sw.samples.append(dict(n=n, getters=[g for g, _ in gs]))
    return checker, gs


def _task(arg):
    modname, lengths, tier = arg
    try:
        ch, gs = checker_factory(modname)
        sw = accept.AcceptSweep(modname, lengths, ch, tier, 200 if tier == 'quick' else 1200, 'C12')
        return sw.run()
    except Exception as e:      # noqa: B902
        import traceback
        return dict(module=modname, crash='%s: %s' % (type(e).__name__, str(e)[:200]), tb=traceback.format_exc()[-1200:])


def still_fails(k):
    w = k.get('witness', {})
    return native_failure(k['module'], w.get('getter') or k['key'].split(':')[0], w.get('input'), w.get('opts') or {}, w.get('today')) is not None


def bounded(rep, pairs, tier):
    t0 = time.time()
    n = 0
    for m, gname in pairs:
        for x in corpus.valid_numbers(m, 6 if tier == 'quick' else 40) + corpus.synth_valid(m, 30 if tier == 'quick' else 300, int(os.environ.get('VERIF_SEED', '0') or 0)):
            n += 1
            d = native_failure(m, gname, x, {}, None)
            if d:
                # the same defect may already be listed under the key the symbolic closure gives it: a listed finding of the same
                # module and getter whose recorded witness still fails is the same finding
                key = '%s: corpus' % gname
                for k_ in rep.known:
                    if k_['module'] == m and k_.get('status', 'known') == 'known' and str(k_['key']).startswith(gname + ':'):
                        key = k_['key']
                        break
                rep.refuted('C12/%s/%s/corpus' % (m, gname), m, key, d, dict(function='%s:%s' % (m, gname), input=x, getter=gname, real=d), True, still_fails)
                break
    rep.add('C12/corpus', 'bounded', 'eval', time.time() - t0, detail='%d (getter, corpus number) evaluations on the real code (bounded stand-in)' % n)


def check(prop, tier, args):
    rep = Report('C12', tier, 'proof', './check C12 --tier %s' % tier, seed=int(os.environ.get('VERIF_SEED', '0') or 0))
    mods = [m.__name__ for m in front.number_modules() if getters(m)]
    if args.modules:
        mods = [m for m in mods if m in args.modules]
    units = accept.accepting_units(modules=mods)
    pairs = [(m, g) for m in mods for g, _ in getters(importlib.import_module(m))]
    items = [(m, sorted({n for o, n in units.get(m, []) if n != 'long'}), tier) for m in mods if m in units]
    res = accept.run_modules(_task, items, 300 if tier == 'quick' else 2500)
    for m in sorted(res):
        r = res[m]
        if 'crash' in r:
            if r.get('timeout'):
                rep.add('C12/%s' % m, 'undecided', detail='time limit')
            else:
                rep.error('C12 sweep of %s crashed: %s' % (m, r['crash']))
            continue
        for g, _ in getters(importlib.import_module(m)):
            rep.functions.add('%s:%s' % (m, g))
        for f in r['findings']:
            oid = 'C12/%s/%s' % (m, f['key'])
            rep.refuted(oid, m, f['key'], f['kind'] + ': ' + f['key'],
                        dict(function='%s:%s' % (m, f.get('getter')), input=f.get('input'), opts=f.get('opts'), getter=f.get('getter'), today=f.get('today'), real=f.get('real')),
                        bool(f.get('reproduced')), still_fails, approx=bool(f.get('approx')))
        seen = {}
        for oid, st, detail in r['obligations']:
            key = 'C12/%s/%s' % (m, oid)
            if st == 'refuted' or seen.get(key) == 'refuted':
                seen[key] = 'refuted'
            elif st == 'undecided' or seen.get(key) == 'undecided':
                seen[key] = 'undecided'
            else:
                seen[key] = 'proved'
        und_g = {u['why'].split(':')[0] for u in r['undecided']}
        for key, st in seen.items():
            if st == 'undecided':
                rep.add(key, 'undecided', detail='solver unknown on a refutation candidate')
            if st == 'proved':
                if key.rsplit('/', 1)[1] in und_g:
                    rep.add(key, 'undecided', detail='some accepting path of this length left the subset')
                else:
                    rep.add(key, 'proved', detail='total (returns or raises ValidationError) and consistent on every accepting path of this length')
        if r['undecided']:
            rep.add('C12/%s/other' % m, 'undecided', detail='; '.join(sorted({u['why'][:70] for u in r['undecided']}))[:300])
            rep.bounded.append(m)
        for s in r.get('samples', []):
            rep.sample(dict(module=m, **s))
    bounded(rep, pairs, tier)
    rep.extra['getter_pairs'] = len(pairs)
    rep.assumptions += ['registry look-ups inside getters use the declarative NumDB contract (C10); large registries are outside the enumerated subset and undecided',
                        'the system date is a universally quantified symbolic date (1 <= year <= 9999)']
    return rep.finish()
