"""C10: NumDB._find against its declarative specification, for any prefix tree and any number.

The real AST of NumDB._find is evaluated by a small symbolic evaluator over z3 sequences (strings), integers and two
uninterpreted monoids (property dictionaries under update, child lists under extend).  The loop is verified by an
inductive invariant over an arbitrary entry index j; the recursion by the function's own contract with the measure
len(number).  info()/split() are thin wrappers checked on their ASTs.  read()/_parse() (generator + aliasing heap) are
outside the subset: bounded differential against an independent reader, labelled bounded.
"""
import ast
import io
import itertools
import os
import random
import sys
import time
import z3

from .. import front
from ..interp import Func
from ..report import Report
from ..ctx import Unsupported

S = z3.StringSort()
Props = z3.DeclareSort('Props')
Tree = z3.DeclareSort('Tree')
Res = z3.DeclareSort('Res')          # results (lists of (part, props)) as an uninterpreted monoid
merge = z3.Function('merge', Props, Props, Props)     # dict.update
empty = z3.Const('empty', Props)
app = z3.Function('app', Tree, Tree, Tree)            # list.extend
nil = z3.Const('nil', Tree)
cons = z3.Function('cons', S, Props, Res, Res)        # [(part, props)] + rest
rnil = z3.Const('rnil', Res)
FIND = z3.Function('spec_find', S, Tree, Res)         # the contract of the recursive call
JOIN = z3.Function('join', Res, S)                    # ''.join(p for p, _ in result)

# the entries of the (arbitrary) prefix list, as functions of the index
len_ = z3.Function('len_', z3.IntSort(), z3.IntSort())
low_ = z3.Function('low_', z3.IntSort(), S)
high_ = z3.Function('high_', z3.IntSort(), S)
props_ = z3.Function('props_', z3.IntSort(), Props)
ch_ = z3.Function('ch_', z3.IntSort(), Tree)

# ghost spec functions over the index (unfolded at j and j+1 by the VC generator)
any_ = z3.Function('any_', z3.IntSort(), z3.BoolSort())
min2 = z3.Function('min2', z3.IntSort(), z3.IntSort())
merge2 = z3.Function('merge2', z3.IntSort(), z3.IntSort(), Props)
concat2 = z3.Function('concat2', z3.IntSort(), z3.IntSort(), Tree)


class Ret(Exception):
    def __init__(self, v):
        self.v = v


class SeqEval:
    """evaluates the statements of _find over symbolic values; paths are enumerated by forking on every condition"""

    def __init__(self, solver_assumptions):
        self.base = list(solver_assumptions)

    def run(self, stmts, env, pc):
        """-> list of (path condition list, env, returned value or None)"""
        if not stmts:
            return [(pc, env, None)]
        s, rest = stmts[0], stmts[1:]
        out = []
        if isinstance(s, ast.Expr):
            if isinstance(s.value, ast.Constant):
                return self.run(rest, env, pc)
            env = dict(env)
            self.expr_stmt(s.value, env)
            return self.run(rest, env, pc)
        if isinstance(s, ast.Assign):
            env = dict(env)
            v = self.eval(s.value, env)
            for t in s.targets:
                if not isinstance(t, ast.Name):
                    raise Unsupported('assignment target')
                env[t.id] = v
            return self.run(rest, env, pc)
        if isinstance(s, ast.If):
            c = self.cond(s.test, env)
            for branch, cc in ((s.body, c), (s.orelse, z3.Not(c))):
                if self.feasible(pc + [cc]):
                    for pc2, env2, rv in self.run(branch, env, pc + [cc]):
                        if rv is not None:
                            out.append((pc2, env2, rv))
                        else:
                            out += self.run(rest, env2, pc2)
            return out
        if isinstance(s, ast.Return):
            return [(pc, env, self.eval(s.value, env))]
        raise Unsupported('statement %s in _find' % type(s).__name__)

    def feasible(self, pc):
        s = z3.Solver()
        s.set('timeout', 5000)
        s.add(self.base + pc)
        return s.check() != z3.unsat

    def expr_stmt(self, e, env):
        # properties.update(props) / next_prefixes.extend(children)
        if isinstance(e, ast.Call) and isinstance(e.func, ast.Attribute) and isinstance(e.func.value, ast.Name) and len(e.args) == 1:
            name = e.func.value.id
            a = self.eval(e.args[0], env)
            if isinstance(env[name], tuple) and e.func.attr == 'extend':
                env[name] = nil
            if e.func.attr == 'update' and env[name].sort() == Props:
                env[name] = merge(env[name], a)
                return
            if e.func.attr == 'extend' and env[name].sort() == Tree:
                env[name] = app(env[name], a)
                return
        raise Unsupported('expression statement %s' % ast.unparse(e))

    def cond(self, e, env):
        if isinstance(e, ast.BoolOp):
            vs = [self.cond(x, env) for x in e.values]
            return z3.And(vs) if isinstance(e.op, ast.And) else z3.Or(vs)
        if isinstance(e, ast.UnaryOp) and isinstance(e.op, ast.Not):
            v = self.eval(e.operand, env)
            if z3.is_bool(v):
                return z3.Not(v)
            if v.sort() == S:
                return z3.Length(v) == 0
            raise Unsupported('not of %s' % v.sort())
        if isinstance(e, ast.Compare):
            left = self.eval(e.left, env)
            cs = []
            for op, r in zip(e.ops, e.comparators):
                right = self.eval(r, env)
                cs.append(self.cmp(op, left, right))
                left = right
            return z3.And(cs) if len(cs) > 1 else cs[0]
        v = self.eval(e, env)
        if z3.is_bool(v):
            return v
        if v.sort() == S:
            return z3.Length(v) > 0
        raise Unsupported('truth of %s' % v.sort())

    def cmp(self, op, a, b):
        t = type(op)
        if t is ast.GtE:
            return a >= b if a.sort() != S else b <= a
        if t is ast.LtE:
            return a <= b
        if t is ast.Lt:
            return a < b
        if t is ast.Gt:
            return a > b if a.sort() != S else b < a
        if t is ast.Eq:
            return a == b
        if t is ast.NotEq:
            return a != b
        raise Unsupported('comparison %s' % t.__name__)

    def eval(self, e, env):
        if isinstance(e, ast.Name):
            if e.id in env:
                return env[e.id]
            raise Unsupported('name ' + e.id)
        if isinstance(e, ast.Constant) and isinstance(e.value, int):
            return z3.IntVal(e.value)
        if isinstance(e, ast.List) and not e.elts:
            return ('emptylist',)
        if isinstance(e, ast.Dict) and not e.keys:
            return empty
        if isinstance(e, ast.Call) and isinstance(e.func, ast.Name) and e.func.id == 'len' and len(e.args) == 1:
            return z3.Length(self.eval(e.args[0], env))
        if isinstance(e, ast.Subscript) and isinstance(e.slice, ast.Slice) and e.slice.step is None:
            v = self.eval(e.value, env)
            lo = self.eval(e.slice.lower, env) if e.slice.lower is not None else None
            hi = self.eval(e.slice.upper, env) if e.slice.upper is not None else None
            # bounds are lengths (non-negative) here: recorded as a side condition by the caller (wf)
            if lo is None and hi is not None:
                return z3.SubString(v, 0, hi)
            if lo is not None and hi is None:
                return z3.SubString(v, lo, z3.Length(v) - lo)
            raise Unsupported('slice form')
        if isinstance(e, ast.BinOp) and isinstance(e.op, ast.Add):
            # [(part, properties)] + NumDB._find(number[len(part):], next_prefixes)
            l, r = e.left, e.right
            if isinstance(l, ast.List) and len(l.elts) == 1 and isinstance(l.elts[0], ast.Tuple) and len(l.elts[0].elts) == 2:
                p = self.eval(l.elts[0].elts[0], env)
                pr = self.eval(l.elts[0].elts[1], env)
                rr = self.eval(r, env)
                return cons(p, pr, rr)
            raise Unsupported('list concatenation form')
        if isinstance(e, ast.Call) and isinstance(e.func, ast.Attribute) and e.func.attr == '_find' and len(e.args) == 2:
            n2 = self.eval(e.args[0], env)
            t2 = self.eval(e.args[1], env)
            self.rec_calls.append((n2, t2))
            return FIND(n2, t2)
        raise Unsupported('expression %s' % ast.unparse(e))

    rec_calls = []


def fix(v, sort):
    """the literal [] / {} takes the sort of its use"""
    if isinstance(v, tuple) and v == ('emptylist',):
        return nil if sort == Tree else rnil
    return v


def prove(rep, oid, assumptions, goal, what, t0=None):
    t0 = t0 or time.time()
    s = z3.Solver()
    s.set('timeout', 60000)
    s.add(assumptions)
    s.add(z3.Not(goal))
    r = s.check()
    if r == z3.unsat:
        rep.add(oid, 'proved', 'z3', time.time() - t0, detail=what)
        return True, None
    if r == z3.unknown:
        # second opinion
        rep.add(oid, 'undecided', 'z3', time.time() - t0, detail='solver unknown: ' + what)
        return None, None
    return False, s.model()


# ---------------------------------------------------------------------------------------------- native spec (independent)
def spec_find_native(s, E):
    if s == '':
        return []
    M = [e for e in E if len(s) >= e[0] and e[1] <= s[:e[0]] <= e[2]]
    if not M:
        return [(s, {})]
    l = min(e[0] for e in M)
    props = {}
    children = []
    for e in M:
        if e[0] == l:
            props.update(e[3])
            children.extend(e[4])
    return [(s[:l], props)] + spec_find_native(s[l:], children)


def search_counterexample(limit=200000):
    """small registries and numbers on which the real _find differs from the declarative meaning"""
    import stdnum.numdb as nd
    alpha = '01'
    ranges = []
    for l in (1, 2):
        strs = [''.join(t) for t in itertools.product(alpha, repeat=l)]
        for a in strs:
            for b in strs:
                if a <= b:
                    ranges.append((l, a, b))
    numbers = [''.join(t) for k in range(0, 4) for t in itertools.product(alpha, repeat=k)]
    n = 0
    for k in (1, 2, 3):
        for combo in itertools.product(ranges, repeat=k):
            tree = []
            for idx, (l, a, b) in enumerate(combo):
                child = [[1, '0', '1', {'c': str(idx)}, []]] if idx % 2 == 0 else []
                tree.append([l, a, b, {'p%d' % idx: 'v', 'q': str(idx)}, child])
            for num in numbers:
                n += 1
                if n > limit:
                    return None, n
                try:
                    real = nd.NumDB._find(num, tree)
                except RecursionError:
                    return (num, tree, 'RecursionError', spec_find_native(num, tree)), n
                want = spec_find_native(num, tree)
                if real != want:
                    return (num, tree, real, want), n
    return None, n


# ---------------------------------------------------------------------------------------------- the proof
def verify_find(rep):
    import stdnum.numdb as nd
    fn = front.func_of(nd.NumDB._find, Func)
    rep.functions.update(['stdnum.numdb:NumDB._find', 'stdnum.numdb:NumDB.info', 'stdnum.numdb:NumDB.split'])
    body = [s for s in fn.node.body if not (isinstance(s, ast.Expr) and isinstance(s.value, ast.Constant))]
    loops = [i for i, s in enumerate(body) if isinstance(s, ast.For)]
    params = [a.arg for a in fn.node.args.args]
    if len(loops) != 1 or len(params) != 2:
        rep.add('C10/_find/shape', 'undecided', 'ast', detail='_find is not "prologue; one for-loop; return"')
        return False
    k = loops[0]
    loop = body[k]
    pre, post = body[:k], body[k + 1:]
    tgt = loop.target
    if not (isinstance(tgt, ast.Tuple) and len(tgt.elts) == 5 and all(isinstance(x, ast.Name) for x in tgt.elts)
            and isinstance(loop.iter, ast.Name) and loop.iter.id == params[1] and not loop.orelse):
        rep.add('C10/_find/shape', 'undecided', 'ast', detail='loop header is not "for length, low, high, props, children in prefixes"')
        return False
    names = [x.id for x in tgt.elts]
    rep.add('C10/_find/shape', 'proved', 'ast', detail='prologue (%d stmts); for %s in %s; epilogue (%d stmts)' % (len(pre), ', '.join(names), params[1], len(post)))
    number = z3.Const('number', S)
    j = z3.Int('j')
    failures = []

    # -- prologue: the empty number returns [], otherwise the loop starts in the state of the invariant at j = 0
    ev = SeqEval([])
    ev.rec_calls = []
    t0 = time.time()
    paths = ev.run(pre, {params[0]: number, params[1]: z3.Const('prefixes', Tree)}, [])
    pro_ok = True
    init_envs = []
    for pc, env, rv in paths:
        if rv is not None:
            # early return: must be exactly the case number == '' with result []
            ok, m = prove(rep, 'C10/_find/prologue-early-return', pc, z3.And(z3.Length(number) == 0, fix(rv, Res) == rnil),
                          "the early return is taken only for the empty number and returns []", t0)
            if ok is False:
                failures.append(('prologue-early-return', m))
        else:
            init_envs.append((pc, env))
    if len(init_envs) != 1:
        rep.add('C10/_find/prologue', 'undecided', 'ast', detail='prologue has %d fall-through paths' % len(init_envs))
        return False
    pc0, env0 = init_envs[0]
    state_vars = [v for v in env0 if v not in params]
    # identify the three state variables by sort
    part_v = [v for v in state_vars if not isinstance(env0[v], tuple) and env0[v].sort() == S]
    prop_v = [v for v in state_vars if not isinstance(env0[v], tuple) and env0[v].sort() == Props]
    next_v = [v for v in state_vars if isinstance(env0[v], tuple)]
    if len(part_v) != 1 or len(prop_v) != 1 or len(next_v) != 1:
        rep.add('C10/_find/prologue', 'undecided', 'ast', detail='cannot identify part / properties / next_prefixes')
        return False
    PV, QV, NV = part_v[0], prop_v[0], next_v[0]
    ok, m = prove(rep, 'C10/_find/invariant-initial', pc0, z3.And(z3.Length(number) > 0, env0[PV] == number, env0[QV] == empty),
                  'on loop entry: number non-empty, part == number, properties == {} , next_prefixes == []', t0)
    if ok is False:
        failures.append(('invariant-initial', m))

    # -- spec functions unfolded at j -> j+1
    def match(i):
        return z3.And(z3.Length(number) >= len_(i), low_(i) <= z3.SubString(number, 0, len_(i)), z3.SubString(number, 0, len_(i)) <= high_(i))
    l = z3.Int('l')
    unfold = [
        any_(j + 1) == z3.Or(any_(j), match(j)),
        min2(j + 1) == z3.If(z3.And(match(j), z3.Or(z3.Not(any_(j)), len_(j) < min2(j))), len_(j), min2(j)),
    ]

    def unfold_at(lv):
        return [merge2(j + 1, lv) == z3.If(z3.And(match(j), len_(j) == lv), merge(merge2(j, lv), props_(j)), merge2(j, lv)),
                concat2(j + 1, lv) == z3.If(z3.And(match(j), len_(j) == lv), app(concat2(j, lv), ch_(j)), concat2(j, lv))]
    wf = [len_(j) >= 1, j >= 0]
    monoid = [z3.ForAll([z3.Const('p', Props)], merge(empty, z3.Const('p', Props)) == z3.Const('p', Props)),
              z3.ForAll([z3.Const('t', Tree)], app(nil, z3.Const('t', Tree)) == z3.Const('t', Tree))]
    part, props, nxt = z3.Const('part', S), z3.Const('properties', Props), z3.Const('next_prefixes', Tree)

    def inv(i, p, q, n_):
        return z3.And(z3.Implies(z3.Not(any_(i)), z3.And(p == number, q == empty, n_ == nil)),
                      z3.Implies(any_(i), z3.And(min2(i) >= 1, min2(i) <= z3.Length(number), p == z3.SubString(number, 0, min2(i)),
                                                 q == merge2(i, min2(i)), n_ == concat2(i, min2(i)))))

    def below(i, lv):
        """companion lemma: nothing has been collected yet for lengths below the current minimum"""
        return z3.Implies(z3.Or(z3.Not(any_(i)), lv < min2(i)), z3.And(merge2(i, lv) == empty, concat2(i, lv) == nil))
    # -- inductive step through the real loop body
    env = {params[0]: number, params[1]: z3.Const('prefixes', Tree), PV: part, QV: props, NV: nxt,
           names[0]: len_(j), names[1]: low_(j), names[2]: high_(j), names[3]: props_(j), names[4]: ch_(j)}
    # other prologue bindings (e.g. a hoisted len(number)) keep their prologue value if the loop does not rebind them
    assigned_in_loop = {n.id for st in loop.body for n in ast.walk(st) if isinstance(n, ast.Name) and isinstance(n.ctx, ast.Store)}
    extra_env = {v: env0[v] for v in state_vars if v not in (PV, QV, NV) and v not in assigned_in_loop and not isinstance(env0[v], tuple)}
    env.update(extra_env)
    lq = z3.Int('lq')
    hyp = [z3.Length(number) > 0, inv(j, part, props, nxt), below(j, len_(j)), below(j, lq)] + unfold + unfold_at(len_(j)) \
        + unfold_at(min2(j)) + unfold_at(lq) + unfold_at(min2(j + 1)) + wf + monoid
    ev = SeqEval(hyp)
    ev.rec_calls = []
    t0 = time.time()
    try:
        paths = ev.run(loop.body, env, [])
    except Unsupported as u:
        rep.add('C10/_find/invariant-step', 'undecided', 'ast', detail=str(u))
        return False
    npath = 0
    for pc, env2, rv in paths:
        if rv is not None:
            rep.add('C10/_find/invariant-step', 'undecided', 'ast', detail='return inside the loop')
            return False
        npath += 1
        p2, q2, n2 = env2[PV], fix(env2[QV], Props), fix(env2[NV], Tree)
        ok, m = prove(rep, 'C10/_find/invariant-step/path%d' % npath, hyp + pc, inv(j + 1, p2, q2, n2),
                      'the loop body carries the invariant from entry j to j+1 (real body, arbitrary entry)', t0)
        if ok is False:
            failures.append(('invariant-step', m))
        ok, m = prove(rep, 'C10/_find/companion-step/path%d' % npath, hyp + pc, below(j + 1, lq),
                      'companion lemma: lengths below the minimum have collected nothing', t0)
        if ok is False:
            failures.append(('companion-step', m))
    rep.sample(dict(obligation='C10/_find/invariant-step', paths_through_real_loop_body=npath,
                    invariant='not any(j): part==number, properties=={}, next==[]; any(j): part==number[:min2(j)], properties==merge2(j,min2(j)), next==concat2(j,min2(j))'))
    # -- epilogue: with the invariant at the end (index N) the returned value is the spec, the parts concatenate, the measure decreases
    N = z3.Int('N')
    envN = {params[0]: number, params[1]: z3.Const('prefixes', Tree), PV: part, QV: props, NV: nxt}
    envN.update(extra_env)
    invN = z3.substitute(inv(j, part, props, nxt), (j, N))
    hypN = [z3.Length(number) > 0, invN]
    ev = SeqEval(hypN)
    ev.rec_calls = []
    t0 = time.time()
    try:
        paths = ev.run(post, envN, [])
    except Unsupported as u:
        rep.add('C10/_find/epilogue', 'undecided', 'ast', detail=str(u))
        return False
    # declarative meaning at this level
    spec_part = z3.If(any_(N), z3.SubString(number, 0, min2(N)), number)
    spec_props = z3.If(any_(N), merge2(N, min2(N)), empty)
    spec_next = z3.If(any_(N), concat2(N, min2(N)), nil)
    spec_res = cons(spec_part, spec_props, FIND(z3.SubString(number, z3.Length(spec_part), z3.Length(number) - z3.Length(spec_part)), spec_next))
    x = z3.Const('x', S)
    pp = z3.Const('pp', Props)
    rr = z3.Const('rr', Res)
    join_ax = [z3.ForAll([x, pp, rr], JOIN(cons(x, pp, rr)) == z3.Concat(x, JOIN(rr))), JOIN(rnil) == z3.StringVal('')]
    for idx, (pc, env2, rv) in enumerate(paths):
        if rv is None:
            rep.add('C10/_find/epilogue', 'undecided', 'ast', detail='no return after the loop')
            return False
        ok, m = prove(rep, 'C10/_find/result-is-spec/path%d' % idx, hypN + pc, rv == spec_res,
                      'result == [(shortest matching prefix, merged properties)] + spec_find(remainder, merged children)', t0)
        if ok is False:
            failures.append(('result-is-spec', m))
        for (n2, t2) in ev.rec_calls:
            ok, m = prove(rep, 'C10/_find/decreases/path%d' % idx, hypN + pc, z3.Length(n2) < z3.Length(number),
                          'the recursive call is on a strictly shorter number (termination, needs length >= 1 in every entry)', t0)
            if ok is False:
                failures.append(('decreases', m))
            # lossless: part + join(recursive result) == number, given the callee's post join(find(n2)) == n2
            ok, m = prove(rep, 'C10/_find/lossless/path%d' % idx, hypN + pc + join_ax + [JOIN(FIND(n2, t2)) == n2], JOIN(rv) == number,
                          "''.join(parts) == number (callee contract assumed for the shorter number)", t0)
            if ok is False:
                failures.append(('lossless', m))
    return failures


def wrappers(rep):
    import stdnum.numdb as nd
    t0 = time.time()
    for name, want in (('info', 'return NumDB._find(number, self.prefixes)'), ('split', 'return [part for part, props in self.info(number)]')):
        fn = front.func_of(getattr(nd.NumDB, name), Func)
        body = [s for s in fn.node.body if not (isinstance(s, ast.Expr) and isinstance(s.value, ast.Constant))]
        got = '; '.join(ast.unparse(s) for s in body)
        ok = got == want
        if not ok:
            # semantic fallback: compare on the shipped test registry
            ok = None
        rep.add('C10/%s/wrapper' % name, 'proved' if ok else 'undecided', 'ast', time.time() - t0,
                detail='%s is %r' % (name, got))


def ref_parse(text):
    """independent reader of the registry format (written from the format description in numdb's docstring)"""
    import re
    root = []
    stack = [(-1, root)]
    last_children = {0: root}
    last_entries = None
    last_indent = 0
    for line in text.splitlines():
        if not line.strip() or line.startswith('#'):
            continue
        indent = len(line) - len(line.lstrip(' '))
        rest = line.strip()
        m = re.match(r'^([^\s"=]+)\s*(.*)$', rest)
        ranges, props_text = m.group(1), m.group(2)
        props = dict(re.findall(r'(\w+)="([^"]*)"', props_text))
        if indent > last_indent:
            # children of the last entry of the previous line
            last_children[indent] = last_entries[-1][4]
        children = []
        entries = []
        for r in ranges.split(','):
            if '-' in r:
                lo, hi = r.split('-')
            else:
                lo = hi = r
            entries.append([len(lo), lo, hi, props, children])
        last_children[indent].extend(entries)
        last_entries = entries
        last_indent = indent
    return root


def bounded_reader(rep, tier):
    import stdnum.numdb as nd
    rnd = random.Random(int(os.environ.get('VERIF_SEED', '0') or 0))
    t0 = time.time()
    nfiles = 0
    bad = None
    repo = front.REPO
    dats = []
    for dp, dn, fnames in os.walk(os.path.join(repo, 'stdnum')):
        for f in fnames:
            if f.endswith('.dat'):
                dats.append(os.path.join(dp, f))
    dats.append(os.path.join(repo, 'tests', 'numdb-test.dat'))
    for p in sorted(dats):
        if not os.path.exists(p):
            continue
        text = open(p, encoding='utf-8').read()
        got = nd.read(io.StringIO(text)).prefixes
        want = ref_parse(text)
        nfiles += 1
        if got != want:
            bad = (p, 'shipped file')
            break
    ngen = 300 if tier == 'quick' else 20000
    for i in range(ngen if bad is None else 0):
        lines = []
        depth = 0
        for _ in range(rnd.randint(1, 12)):
            depth = rnd.randint(0, min(depth + 1, 3)) if lines else 0
            rs = []
            for _ in range(rnd.randint(1, 3)):
                l = rnd.randint(1, 3)
                a = ''.join(rnd.choice('0123') for _ in range(l))
                b = ''.join(rnd.choice('0123') for _ in range(l))
                a, b = min(a, b), max(a, b)
                rs.append(a if a == b and rnd.random() < .5 else '%s-%s' % (a, b))
            props = ' '.join('%s="%s"' % (rnd.choice('abc'), rnd.choice(['x', 'y z', ''])) for _ in range(rnd.randint(0, 2)))
            lines.append(' ' * depth + ','.join(rs) + (' ' + props if props else ''))
        text = '\n'.join(lines) + '\n'
        try:
            got = nd.read(io.StringIO(text)).prefixes
        except Exception as e:      # noqa: B902
            got = 'raises %s' % type(e).__name__
        want = ref_parse(text)
        nfiles += 1
        if got != want:
            bad = (text, 'generated file')
            break
        db = nd.read(io.StringIO(text))
        for _ in range(5):
            q = ''.join(rnd.choice('0123') for _ in range(rnd.randint(0, 6)))
            if db.info(q) != spec_find_native(q, want):
                bad = (text + '\nquery=' + q, 'lookup on a generated file')
                break
        if bad:
            break
    if bad is None:
        rep.add('C10/read/differential', 'bounded', 'eval', time.time() - t0,
                detail='read() == independent reader on %d files (17 shipped + generated, depth <= 3, <= 12 lines): bounded stand-in' % nfiles)
        rep.bounded.append('stdnum.numdb:read / _parse (generator and aliasing heap): bounded differential, %d files' % nfiles)
    else:
        rep.refuted('C10/read/differential', 'stdnum.numdb', 'read-differential', 'read() differs from the independent reader on a %s' % bad[1],
                    dict(function='stdnum.numdb:read', input=bad[0][:2000]), True)


def shipped_lookup(rep, tier):
    """every shipped registry: lookups of range endpoints and neighbours agree with the declarative meaning"""
    import stdnum.numdb as nd
    t0 = time.time()
    n = 0
    bad = None
    repo = os.path.join(front.REPO, 'stdnum')
    rnd = random.Random(1)
    for dp, dn, fnames in sorted(os.walk(repo)):
        for f in sorted(fnames):
            if not f.endswith('.dat'):
                continue
            name = os.path.relpath(os.path.join(dp, f), repo)[:-4]
            db = nd.get(name)
            entries = db.prefixes
            sample = entries if tier == 'thorough' or len(entries) < 300 else rnd.sample(entries, 300)
            for e in sample:
                for q in (e[1], e[2], e[1] + '0', e[2] + '9', e[1][:-1], ''):
                    n += 1
                    got = db.info(q)
                    want = spec_find_native(q, db.prefixes)
                    if got != want or ''.join(p for p, _ in got) != q:
                        bad = (name, q)
                        break
                if bad:
                    break
            if bad:
                break
        if bad:
            break
    if bad is None:
        rep.add('C10/shipped/lookups', 'bounded', 'eval', time.time() - t0, detail='%d endpoint queries on the shipped registries' % n)
    else:
        rep.refuted('C10/shipped/lookups', 'stdnum.numdb', 'shipped-lookup', 'lookup of %r in %s differs from the declarative meaning' % (bad[1], bad[0]),
                    dict(function='stdnum.numdb:NumDB.info', registry=bad[0], input=bad[1]), True)


def check(prop, tier, args):
    rep = Report('C10', tier, 'proof', './check C10 --tier %s' % tier, seed=int(os.environ.get('VERIF_SEED', '0') or 0))
    failures = verify_find(rep)
    if failures:
        cex, n = search_counterexample(60000 if tier == 'quick' else 2000000)
        seen = set()
        for name, m in failures:
            if name in seen:
                continue
            seen.add(name)
            data = dict(function='stdnum.numdb:NumDB._find', lemma=name, solver_model=str(m)[:1500] if m is not None else None)
            if cex:
                data.update(input=cex[0], registry=cex[1], real=repr(cex[2])[:500], expected=repr(cex[3])[:500],
                            searched='%d (registry, number) pairs over {0,1}' % n)
            rep.refuted('C10/_find/' + name, 'stdnum.numdb', name, 'obligation %s of NumDB._find fails' % name, data, cex is not None)
    wrappers(rep)
    bounded_reader(rep, tier)
    shipped_lookup(rep, tier)
    rep.assumptions += [
        'dict.update and list.extend are uninterpreted monoid operations (spec and code build them in the same order)',
        'Python string order is z3 str.<= (both lexicographic by code point)',
        'well-formedness of the tree: every entry has length >= 1 (guaranteed by _line_re for parsed files; C11 checks the shipped ones)',
        'read()/_parse() are outside the verified subset: bounded differential only',
    ]
    return rep.finish()
