"""C04: format() preserves the identity of a valid number.

For every accepting path of validate() (value v, input x): format(x) and format(v) are executed symbolically under the
path condition together with validate(format(x)); the obligations are format(x) == format(v), validate(format(x)) == v,
and that none of the three raises.  Refutations are replayed on the real functions.
"""
import importlib
import inspect
import itertools
import os
import sys
import time
import z3

from .. import front, accept, corpus
from ..interp import Func
from ..sym import FixedStr, LongStr, AbstractStr, tostr, str_eq, Not, simp
from ..ctx import Raise, Unsupported
from ..absstr import raw_input
from ..report import Report
from ..replay import call_real, is_validation_error

# normalisations the property documents: checked natively on the corpus (bounded), not symbolically
DOCUMENTED = {
    'stdnum.ismn': 'shown in 13-digit form',
    'stdnum.isan': 'shown with check characters added',
    'stdnum.meid': 'check digit dropped by validate',
}
FORMAT_OPTS = {
    'stdnum.imei': [dict(), dict(add_check_digit=True)],
    'stdnum.isbn': [dict(), dict(convert=True)],
    'stdnum.de.stnr': [dict()],
}


def native_norm(modname, v):
    mod = importlib.import_module(modname)
    if modname == 'stdnum.ismn':
        return mod.to_ismn13(v)
    if modname == 'stdnum.isil':
        return v
    return v


def native_violation(modname, x, fopts, vopts=None, today=None):
    """-> description if C04 fails for input x on the real code, else None"""
    q = modname
    rv = call_real(q + ':validate', [x], vopts, today)
    if rv[0] != 'return':
        return None
    v = rv[1]
    fx = call_real(q + ':format', [x], fopts, today)
    if fx[0] != 'return':
        return 'format(x) raises %s' % fx[1]
    if modname == 'stdnum.meid':
        # documented: validate() drops the check digit (and shows decimal numbers in hexadecimal); what must hold whatever
        # the presentation: the formatted text is accepted and denotes the same 56 bits
        import stdnum.meid
        vf0 = call_real(q + ':validate', [fx[1]], vopts, today)
        if vf0[0] != 'return':
            return 'validate(format(x)) raises %s for format(x)=%r' % (vf0[1], fx[1])
        if stdnum.meid.to_binary(vf0[1]) != stdnum.meid.to_binary(v):
            return 'validate(format(x)) denotes another MEID: %r vs %r' % (vf0[1], v)
    fv = call_real(q + ':format', [v], fopts, today)
    if fv[0] != 'return':
        return 'format(validate(x)) raises %s' % fv[1]
    if fx[1] != fv[1]:
        return 'format(x)=%r differs from format(validate(x))=%r' % (fx[1], fv[1])
    vf = call_real(q + ':validate', [fx[1]], vopts, today)
    if vf[0] != 'return':
        return 'validate(format(x)) raises %s for format(x)=%r' % (vf[1], fx[1])
    want = v
    if fopts.get('convert') and modname == 'stdnum.isbn':
        want = call_real(q + ':validate', [v], dict(convert=True), today)[1]
    if fopts.get('add_check_digit') and modname == 'stdnum.imei':
        want = None      # a 14-digit IMEI gains its check digit: identity is the first 14 digits
        if vf[1][:14] != v[:14]:
            return 'validate(format(x))=%r does not embed validate(x)=%r' % (vf[1], v)
        return None
    if modname == 'stdnum.isil':
        pre, sep, rest = v.partition('-')
        want = pre.upper() + sep + rest
        return None if vf[1] == want else 'validate(format(x))=%r differs from %r (only the agency prefix may be upper-cased)' % (vf[1], want)
    if modname in DOCUMENTED:
        if modname == 'stdnum.ismn':
            want = native_norm(modname, v)
        elif modname == 'stdnum.isil':
            pre, sep, rest = v.partition('-')
            want = pre.upper() + sep + rest
            return None if vf[1] == want else 'validate(format(x))=%r differs from %r (only the agency prefix may be upper-cased)' % (vf[1], want)
        elif modname in ('stdnum.isan', 'stdnum.meid'):
            import stdnum.isan
            import stdnum.meid
            if modname == 'stdnum.meid' and fopts.get('format'):
                # converted between the hexadecimal and the decimal representation: the same 56 bits
                same = stdnum.meid.to_binary(vf[1]) == stdnum.meid.to_binary(v)
                return None if same else 'MEID identity changed by the conversion: %r vs %r' % (vf[1], v)
            a = importlib.import_module(modname).compact(vf[1]) if modname == 'stdnum.isan' else vf[1]
            b = importlib.import_module(modname).compact(v) if modname == 'stdnum.isan' else v
            if modname == 'stdnum.isan':
                return None if call_real(q + ':validate', [vf[1]], dict(strip_check_digits=True))[1] == call_real(q + ':validate', [v], dict(strip_check_digits=True))[1] else 'ISAN identity changed'
            return None if a[:len(b)] == b or b[:len(a)] == a else 'MEID identity changed: %r vs %r' % (a, b)
    if vf[1] != want:
        return 'validate(format(x))=%r differs from validate(x)=%r' % (vf[1], want)
    return None


def expected_value(I, modname, v):
    """what validate(format(x)) must equal, given validate(x) == v: v itself, except for the documented normalisation of
    ISIL (agency prefix before the first hyphen upper-cased)"""
    if modname == 'stdnum.isil':
        parts = I.str_method(tostr(v), 'split', ['-', 1], {})
        if len(parts) == 2:
            pre = tostr(I.map_case('upper', tostr(parts[0])))
            return FixedStr(pre.chars + [45] + tostr(parts[1]).chars)
        return v
    return v


def checker_factory(modname, fopts_list):
    mod = importlib.import_module(modname)
    ff = front.func_of(mod.format, Func)
    vf = front.func_of(mod.validate, Func)

    def checker(sw, p, v, opts, n):
        for fopts in fopts_list:
            if fopts.get('convert') or fopts.get('add_check_digit'):
                continue     # option variants that change the number: native (bounded) only
            def run(I, ctx):
                fa = I.call(ff, [raw_input()], dict(fopts), {}, ff.module)
                fb = I.call(ff, [v], dict(fopts), {}, ff.module)
                if isinstance(fa, AbstractStr):
                    fa = I.materialise(fa)
                va = I.call(vf, [fa], dict(opts), {}, vf.module)
                return (fa, fb, va, expected_value(I, modname, v))
            u0 = getattr(sw, 'unknowns', 0)
            paths, status = sw.closure(p, run)
            oid = 'len=%s%s' % (n, (' ' + repr(fopts)) if fopts else '')
            partial = status != 'ok'       # the paths explored within the budget are still examined: what they refute is reported
            if partial:
                sw.undecided.append(dict(n=n, why='closure budget'))
            ok = True
            for ctx, r in paths:
                extra = None
                if isinstance(r, Raise):
                    what = 'format()/validate(format(x)) raises %s (%s)' % (r.cls.__name__, r.why)
                else:
                    fa, fb, va, want = r
                    conds = []
                    for a, b, w in ((fa, fb, 'format(x) differs from format(validate(x))'), (va, want, 'validate(format(x)) differs from validate(x)')):
                        if isinstance(a, LongStr) or isinstance(b, LongStr):
                            raise Unsupported('long string in format')
                        if not isinstance(a, (str, FixedStr)) or not isinstance(b, (str, FixedStr)):
                            conds.append((False, w))
                            continue
                        c = str_eq(a, b)
                        if c is True or (c is not False and ctx.entails(c)):
                            continue
                        conds.append((c, w))
                    if not conds:
                        continue
                    c, what = conds[0]
                    extra = None if c is False else Not(c)
                w = sw.witness(ctx, p.ctx.primary, extra)
                if w is None:
                    continue
                ok = False
                x, today = w
                desc = native_violation(modname, x, fopts, opts, today)
                sw.finding('format changes the number', what.split(' (')[0], input=x, opts=opts, fopts=fopts, today=today,
                           approx=ctx.approx or bool(getattr(ctx, 'soft', None)), real=desc, reproduced=desc is not None)
            if not (partial and ok):
                sw.obligations.append((oid, ('undecided' if getattr(sw, 'unknowns', 0) > u0 else 'proved') if ok else 'refuted', '%d closure paths' % len(paths)))
            if len(sw.samples) < 1 and paths:
                sw.samples.append(dict(n=n, closure_paths=len(paths), format_opts=fopts))
    return checker


def _task(arg):
    modname, lengths, tier = arg
    fopts = FORMAT_OPTS.get(modname, [dict()])
    try:
        sw = accept.AcceptSweep(modname, lengths, checker_factory(modname, fopts), tier, 150 if tier == 'quick' else 900, 'C04')
        return sw.run()
    except Exception as e:      # noqa: B902
        import traceback
        return dict(module=modname, crash='%s: %s' % (type(e).__name__, str(e)[:200]), tb=traceback.format_exc()[-1200:])


def native_format_options(modname):
    """option valuations of format() for the bounded native run: the listed ones plus what the signature offers (separator='',
    flags flipped, the representation argument of meid)"""
    import inspect
    out = [dict(o) for o in FORMAT_OPTS.get(modname, [dict()])]
    try:
        ps = list(inspect.signature(importlib.import_module(modname).format).parameters.values())[1:]
    except (TypeError, ValueError):
        return out
    for p_ in ps:
        if p_.name == 'separator':
            out.append(dict(separator=''))
        elif isinstance(p_.default, bool):
            out.append({p_.name: not p_.default})
        elif p_.name == 'format' and modname == 'stdnum.meid':
            out += [dict(format='hex'), dict(format='dec'), dict(format='hex', add_check_digit=True), dict(format='dec', add_check_digit=True)]
    uniq = []
    for o in out:
        if o not in uniq:
            uniq.append(o)
    return uniq


def bounded_native(rep, mods, tier):
    """bounded stand-in on the corpus (all presentations found in the doctests), including the documented
    normalisations and the option variants that change the number"""
    t0 = time.time()
    n = 0
    seen_keys = set()
    for m in mods:
        allopts = native_format_options(m)
        base = corpus.valid_numbers(m, 15 if tier == 'quick' else 40) + corpus.synth_valid(m, 40 if tier == 'quick' else 400, int(os.environ.get('VERIF_SEED', '0') or 0))
        # what format() produces under any option valuation is itself a presentation of a valid number (e.g. with a check digit added)
        derived = []
        if len(allopts) > 1:
            for x in base[:10 if tier == 'quick' else 40]:
                for o in allopts:
                    r_ = call_real(m + ':format', [x], o)
                    if r_[0] == 'return' and isinstance(r_[1], str) and r_[1] not in base and r_[1] not in derived:
                        derived.append(r_[1])
        for fopts in allopts:
            for x in base + derived:
                n += 1
                try:
                    d = native_violation(m, x, fopts)
                except Exception as e:     # noqa: B902
                    d = None
                if d:
                    # every distinct kind of failure is reported once per module (a listed finding must not hide another one)
                    key = 'corpus: ' + d.split('=')[0][:60]
                    if (m, key) not in seen_keys:
                        seen_keys.add((m, key))
                        rep.refuted('C04/%s/corpus/%s' % (m, key[8:40]), m, key, d,
                                    dict(function=m + ':format', input=x, fopts=fopts, real=d), True, still_fails(m))
    rep.add('C04/corpus', 'bounded', 'eval', time.time() - t0, detail='%d corpus numbers through the real format()/validate() (bounded stand-in)' % n)


def still_fails(modname):
    def f(k):
        w = k.get('witness', {})
        return native_violation(k['module'], w.get('input'), w.get('fopts') or {}, w.get('opts') or {}, w.get('today')) is not None
    return f


def check(prop, tier, args):
    rep = Report('C04', tier, 'proof', './check C04 --tier %s' % tier, seed=int(os.environ.get('VERIF_SEED', '0') or 0))
    mods = [m.__name__ for m in front.number_modules() if hasattr(m, 'format')]
    if args.modules:
        mods = [m for m in mods if m in args.modules]
    units = accept.accepting_units(modules=mods)
    items = []
    for m in mods:
        ls = sorted({n for o, n in units.get(m, []) if n != 'long'}, key=lambda x: x)
        if m in DOCUMENTED:
            continue
        if m not in units:
            rep.add('C04/%s' % m, 'undecided', detail='module was not swept (C01 crash / time-out)')
            continue
        items.append((m, ls, tier))
    res = accept.run_modules(_task, items, 300 if tier == 'quick' else 2000)
    for m in sorted(res):
        r = res[m]
        rep.functions.update([m + ':format', m + ':validate', m + ':compact'])
        if 'crash' in r:
            if r.get('timeout'):
                rep.add('C04/%s' % m, 'undecided', detail='time limit')
            else:
                rep.error('C04 sweep of %s crashed: %s' % (m, r['crash']))
            continue
        und = {str(u['n']) for u in r['undecided']}
        bad_lens = set()
        for f in r['findings']:
            oid = 'C04/%s/%s' % (m, f['key'])
            rep.refuted(oid, m, f['key'], f['kind'] + ': ' + f['key'],
                        dict(function=m + ':format', input=f.get('input'), opts=f.get('opts'), fopts=f.get('fopts'), today=f.get('today'),
                             real=f.get('real'), solver='z3 model of the accepting path and the format/validate closure'),
                        bool(f.get('reproduced')), still_fails(m), approx=bool(f.get('approx')))
        seen = {}
        for oid, st, detail in r['obligations']:
            key = 'C04/%s/%s' % (m, oid)
            if st == 'proved' and seen.get(key) != 'refuted':
                seen[key] = 'proved'
            else:
                seen[key] = st
        for key, st in seen.items():
            ln = key.split('len=')[1].split(' ')[0]
            if st == 'proved' and ln not in und:
                rep.add(key, 'proved', detail='format(x)==format(v), validate(format(x))==v on every accepting path of this length')
            elif st == 'undecided':
                rep.add(key, 'undecided', detail='solver unknown on a refutation candidate')
            elif st != 'proved':
                pass        # reported through the finding
            else:
                rep.add(key, 'undecided', detail='some accepting path left the subset')
        if und:
            rep.add('C04/%s/other-lengths' % m, 'undecided', detail='; '.join(sorted({u['why'][:60] for u in r['undecided']}))[:200])
            rep.bounded.append(m)
        for s in r.get('samples', []):
            rep.sample(dict(module=m, **s))
    bounded_native(rep, mods, tier)
    rep.extra['documented_normalisations_checked_natively_only'] = DOCUMENTED
    rep.assumptions += ['format options that change the number (isbn convert, imei add_check_digit) and the four documented normalisations '
                        '(ISMN, ISAN, ISIL, MEID) are checked on the corpus only (bounded)',
                        'accepting paths are those of the C01 sweep; lengths without an accepting path have nothing to prove']
    return rep.finish()
