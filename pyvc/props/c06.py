"""C06: the generic check-digit algorithms give their guarantees at every length.

For each algorithm the step function step(state, position, symbol) is extracted from the real loop body of
checksum() (or from the sum / Horner normal form for Luhn and Mod 97-10), the finite lemmas (range, left/right
injectivity, adjacent transposition, completion) are discharged by z3 over symbolic state, position and symbols, and
the induction over the length is the Lean file lean/Fold.lean, compiled on every run.
"""
import ast
import os
import subprocess
import sys
import time
import z3

from .. import front, isets
from ..ctx import Ctx, Raise, Unsupported, Infeasible
from ..interp import Interp, Func, CONTRACTS
from ..explore import explore_closure, explore, func
from ..sym import FixedStr, tostr, is_sym, is_cond, toz3, in_set, And, Or, Not, Eq, simp
from ..isets import ISet
from ..report import Report, ROOT
from ..replay import call_real

ALNUM = '0123456789ABCDEFGHIJKLMNOPQRSTUVWXYZ'
LUHN_N = ''.join(chr(c) for c in range(48, 58)) + ''.join(chr(c) for c in range(97, 123)) + 'ABCD'     # 40 distinct symbols


def run_lean(rep, tier):
    t0 = time.time()
    src = os.path.join(ROOT, 'lean', 'Fold.lean')
    try:
        p = subprocess.run(['lean', src], capture_output=True, text=True, timeout=600, cwd=os.path.join(ROOT, 'lean'))
    except Exception as e:      # noqa: B902
        rep.error('lean could not be run: %s' % e)
        return False
    out = (p.stdout + p.stderr).strip()
    thms = ['foldl_inj_state', 'subst_detected', 'transp_detected', 'check_unique', 'simulation', 'subst_detected_rev',
            'transp_detected_rev', 'rev_check']
    text = open(src).read()
    bad = 'sorry' in text or 'axiom ' in text or 'admit' in text
    if p.returncode != 0 or 'error' in out or bad:
        rep.error('Lean schemas do not check: %s' % (out[:300] or 'sorry/axiom present'))
        return False
    secs = time.time() - t0
    for t in thms:
        if ('theorem ' + t) not in text:
            rep.error('Lean theorem %s missing' % t)
            return False
        rep.add('C06/lean/' + t, 'proved', 'lean4', secs / len(thms), detail='induction schema, parametric in step')
    if tier == 'thorough':
        try:
            q = subprocess.run('lean -o /tmp/_Fold.olean %s && cd /tmp && leanchecker _Fold 2>&1 | tail -2; rm -f /tmp/_Fold.olean' % src,
                               shell=True, capture_output=True, text=True, timeout=900)
            rep.extra['leanchecker'] = (q.stdout + q.stderr)[-300:]
        except Exception as e:      # noqa: B902
            rep.extra['leanchecker'] = 'not run: %s' % e
    return True


# ---------------------------------------------------------------------------------------------- extraction
class Algo:
    """step function of one algorithm, extracted from the real source"""

    def __init__(self, name, modname, alphabet, kwargs=None):
        self.name, self.modname, self.alphabet, self.kwargs = name, modname, alphabet, dict(kwargs or {})
        self.mod = __import__(modname, fromlist=['x'])
        self.fn = front.func_of(self.mod.checksum, Func)
        self.reverse = False
        self.uses_pos = False
        self.kind = None
        self.extract()

    def body(self):
        b = [s for s in self.fn.node.body if not (isinstance(s, ast.Expr) and isinstance(s.value, ast.Constant))]
        return b

    def base_env(self, I, number):
        env = {}
        args = self.fn.node.args
        names = [a.arg for a in args.args]
        defaults = [None] * (len(names) - len(args.defaults)) + list(args.defaults)
        for nme, d in zip(names, defaults):
            if nme == names[0]:
                env[nme] = number
            elif nme in self.kwargs:
                env[nme] = self.kwargs[nme]
            elif d is not None:
                env[nme] = I.eval(d, {}, self.fn.module)
        return env

    def extract(self):
        b = self.body()
        loops = [i for i, s in enumerate(b) if isinstance(s, ast.For)]
        self.out_expr = None
        if len(loops) == 1 and isinstance(b[-1], ast.Return) and loops[0] == len(b) - 2 and self._loop_state(b[loops[0]], b[-1].value):
            self.kind = 'loop'
            self.k = loops[0]
            self.loop = b[self.k]
            self.state_var = self._loop_state(self.loop, b[-1].value)
            if not isinstance(b[-1].value, ast.Name):
                self.out_expr = b[-1].value      # checksum = out(final state)
            it = self.loop.iter
            self.enum = isinstance(it, ast.Call) and isinstance(it.func, ast.Name) and it.func.id == 'enumerate'
            self.uses_pos = self.enum
            if self.loop.orelse:
                raise Unsupported('loop with else')
            for n in ast.walk(self.loop):
                if isinstance(n, (ast.Break, ast.Continue, ast.Return)):
                    raise Unsupported('loop with break/continue/return')
            # direction: evaluate the iterable for the two-symbol string a0 a1
            ctx = Ctx()
            I = Interp(ctx)
            a0, a1 = self.alphabet[0], self.alphabet[1]
            env = self.base_env(I, a0 + a1)
            I.fnstack.append('c06')
            I.block(b[:self.k], env, self.fn.module)
            items = I.iter(I.eval(self.loop.iter, env, self.fn.module))
            env1 = self.base_env(I, a0)
            I.block(b[:self.k], env1, self.fn.module)
            first = I.iter(I.eval(self.loop.iter, env1, self.fn.module))[0]
            self.reverse = (items[0] != first)
            self.init = env[self.state_var]
            return
        if len(b) >= 1 and isinstance(b[-1], ast.Return):
            r = b[-1].value
            # Luhn: (sum(X[::2]) + sum(E(i) for i in X[1::2])) % n
            if isinstance(r, ast.BinOp) and isinstance(r.op, ast.Mod) and isinstance(r.left, ast.BinOp) and isinstance(r.left.op, ast.Add):
                l, rr = r.left.left, r.left.right

                def is_sum_slice(e, start):
                    if not (isinstance(e, ast.Call) and isinstance(e.func, ast.Name) and e.func.id == 'sum' and len(e.args) == 1):
                        return None
                    a = e.args[0]
                    if isinstance(a, ast.Subscript) and isinstance(a.slice, ast.Slice):
                        sl = a.slice
                        lo = sl.lower.value if isinstance(sl.lower, ast.Constant) else (None if sl.lower is None else 'x')
                        st = sl.step.value if isinstance(sl.step, ast.Constant) else None
                        if st == 2 and (lo or 0) == start and sl.upper is None and isinstance(a.value, ast.Name):
                            return (a.value.id, None, None)
                    if isinstance(a, ast.GeneratorExp) and len(a.generators) == 1 and not a.generators[0].ifs:
                        g = a.generators[0]
                        it = g.iter
                        if isinstance(it, ast.Subscript) and isinstance(it.slice, ast.Slice) and isinstance(g.target, ast.Name):
                            sl = it.slice
                            lo = sl.lower.value if isinstance(sl.lower, ast.Constant) else None
                            st = sl.step.value if isinstance(sl.step, ast.Constant) else None
                            if st == 2 and (lo or 0) == start and sl.upper is None and isinstance(it.value, ast.Name):
                                return (it.value.id, g.target.id, a.elt)
                    return None
                ev, od = is_sum_slice(l, 0), is_sum_slice(rr, 1)
                if ev and od and ev[0] == od[0]:
                    self.kind = 'paritysum'
                    self.seq_var = ev[0]
                    self.even, self.odd = ev, od
                    self.modulus_expr = r.right
                    self.pre = b[:-1]
                    self.reverse = self._direction_paritysum()
                    self.uses_pos = True
                    return
            # Mod 97-10: int(F(number)) % M with F = ''.join(str(E(x)) for x in number)
            if isinstance(r, ast.BinOp) and isinstance(r.op, ast.Mod) and isinstance(r.right, ast.Constant) and isinstance(r.left, ast.Call) \
                    and isinstance(r.left.func, ast.Name) and r.left.func.id == 'int' and len(r.left.args) == 1 and len(b) == 1:
                inner = r.left.args[0]
                if isinstance(inner, ast.Call) and isinstance(inner.func, ast.Name) and len(inner.args) == 1:
                    callee = self.fn.module.__dict__.get(inner.func.id)
                    cf = front.func_of(callee, Func)
                    cb = [s for s in cf.node.body if not (isinstance(s, ast.Expr) and isinstance(s.value, ast.Constant))]
                    if len(cb) == 1 and isinstance(cb[0], ast.Return):
                        j = cb[0].value
                        if isinstance(j, ast.Call) and isinstance(j.func, ast.Attribute) and j.func.attr == 'join' and isinstance(j.func.value, ast.Constant) \
                                and j.func.value.value == '' and isinstance(j.args[0], ast.GeneratorExp) and len(j.args[0].generators) == 1:
                            ge = j.args[0]
                            g = ge.generators[0]
                            if isinstance(ge.elt, ast.Call) and isinstance(ge.elt.func, ast.Name) and ge.elt.func.id == 'str' and not g.ifs \
                                    and isinstance(g.iter, ast.Name) and g.iter.id == cf.node.args.args[0].arg and isinstance(g.target, ast.Name):
                                self.kind = 'horner'
                                self.modulus = r.right.value
                                self.elem_expr = ge.elt.args[0]
                                self.elem_var = g.target.id
                                self.elem_fn = cf
                                return
        raise Unsupported('checksum() of %s is in none of the recognised fold forms' % self.modname)

    def _loop_state(self, loop, ret):
        """the single variable carried by the loop that the returned expression is a function of (None: not this form)"""
        if isinstance(ret, ast.Name):
            return ret.id
        assigned = {t.id for n in ast.walk(loop) if isinstance(n, (ast.Assign, ast.AugAssign))
                    for t in (n.targets if isinstance(n, ast.Assign) else [n.target]) if isinstance(t, ast.Name)}
        targets = {n.id for n in ast.walk(loop.target) if isinstance(n, ast.Name)}
        used = {n.id for n in ast.walk(ret) if isinstance(n, ast.Name)}
        cand = (used & assigned) - targets
        if len(cand) != 1 or (used & targets):
            return None
        for n in ast.walk(ret):
            if isinstance(n, (ast.Call, ast.Lambda, ast.GeneratorExp, ast.ListComp)):
                return None
        return next(iter(cand))

    def out(self, I, state):
        """the checksum as a function of the final state"""
        if self.out_expr is None:
            return state
        env = self.base_env(I, self.alphabet[0])
        I.block(self.body()[:self.k], env, self.fn.module)
        env[self.state_var] = state
        return I.eval(self.out_expr, env, self.fn.module)

    def reachable(self, limit=400):
        """the states reachable from the initial one over the alphabet, by exhaustive concrete evaluation of the extracted
        step (loops whose step does not depend on the position); None when it does not close within the limit"""
        if self.kind != 'loop' or self.uses_pos:
            return None
        seen = {self.init}
        work = [self.init]
        while work:
            st = work.pop()
            for ch in self.alphabet:
                I = Interp(Ctx())
                I.fnstack.append('c06')
                try:
                    t = self.step(I, st, 0, ch)
                except (Raise, Unsupported):
                    return None
                if not isinstance(t, int) or isinstance(t, bool):
                    return None
                if t not in seen:
                    seen.add(t)
                    work.append(t)
                    if len(seen) > limit:
                        return None
        return seen

    def _direction_paritysum(self):
        ctx = Ctx()
        I = Interp(ctx)
        a0, a1 = self.alphabet[0], self.alphabet[1]
        env = self.base_env(I, a0 + a1)
        I.block(self.pre, env, self.fn.module)
        seq = I.iter(env[self.seq_var])
        env1 = self.base_env(I, a0)
        I.block(self.pre, env1, self.fn.module)
        first = I.iter(env1[self.seq_var])[0]
        return seq[0] != first

    # -- the step function: state is a z3 term / int (or a pair for parity sums)
    def step(self, I, state, pos, ch):
        m = self.fn.module
        if self.kind == 'loop':
            b = self.body()
            env = self.base_env(I, FixedStr([ch]) if not isinstance(ch, str) else ch)
            I.block(b[:self.k], env, m)
            items = I.iter(I.eval(self.loop.iter, env, m))
            if len(items) != 1:
                raise Unsupported('one symbol does not yield one loop iteration')
            item = items[0]
            if self.enum:
                item = (pos, item[1])
            env[self.state_var] = state
            I.assign(self.loop.target, item, env, m)
            I.block(self.loop.body, env, m)
            return env[self.state_var]
        if self.kind == 'paritysum':
            env = self.base_env(I, FixedStr([ch]) if not isinstance(ch, str) else ch)
            I.block(self.pre, env, m)
            v = I.iter(env[self.seq_var])[0]
            n = I.eval(self.modulus_expr, env, m)
            env2 = dict(env)
            env2[self.odd[1]] = v
            ov = I.eval(self.odd[2], env2, m)
            if self.even[2] is not None:
                env3 = dict(env)
                env3[self.even[1]] = v
                evv = I.eval(self.even[2], env3, m)
            else:
                evv = v
            p, s = state
            contrib = z3.If(p == 0, evv, ov) if is_sym(p) else (evv if p == 0 else ov)
            return ((p + 1) % 2, (s + contrib) % n)
        if self.kind == 'horner':
            env = {self.elem_var: FixedStr([ch]) if not isinstance(ch, str) else ch}
            e = I.eval(self.elem_expr, env, self.elem_fn.module)
            # digits(e): 1 if e < 10, 2 if e < 100 (the range lemma shows e < 100)
            I.ctx.require(e >= 0 if is_sym(e) else e >= 0, ValueError, 'negative element')
            if is_sym(e):
                I.ctx.require(e < 100, Unsupported, 'element with more than two digits')
                return z3.If(e < 10, state * 10 + e, state * 100 + e) % self.modulus
            return (state * (10 if e < 10 else 100) + e) % self.modulus
        raise Unsupported(self.kind)

    def init_state(self):
        if self.kind == 'loop':
            return self.init
        if self.kind == 'paritysum':
            return (0, 0)
        return 0


# ---------------------------------------------------------------------------------------------- lemma machinery
class Lemmas:
    def __init__(self, rep, algo, rng, good):
        self.rep, self.a, self.rng, self.good = rep, algo, rng, good
        self.states = None          # the exact reachable state set, where it was computed
        if isinstance(rng, (set, frozenset)):
            self.states = frozenset(rng)
            self.rng = (min(rng), max(rng))
        self.alpha = ISet.of(algo.alphabet)
        self.failed = []

    def sym_state(self, ctx, tag):
        if self.a.kind == 'paritysum':
            p, s = ctx.fresh_int('p' + tag), ctx.fresh_int('s' + tag)
            ctx.add(z3.And(p >= 0, p <= 1, s >= self.rng[0], s <= self.rng[1]))
            return (p, s)
        s = ctx.fresh_int('s' + tag)
        ctx.add(self.in_range(s))
        return s

    def sym_char(self, ctx, tag):
        return ctx.fresh_char(self.alpha, 'a' + tag)

    def sym_pos(self, ctx):
        i = ctx.fresh_int('i')
        ctx.add(i >= 0)
        return i

    @staticmethod
    def st_eq(a, b):
        if isinstance(a, tuple):
            return z3.And(toz3(Eq(a[0], b[0])), toz3(Eq(a[1], b[1])))
        return toz3(Eq(a, b))

    def in_range(self, s):
        if isinstance(s, tuple):
            return z3.And(s[0] >= 0, s[0] <= 1, s[1] >= self.rng[0], s[1] <= self.rng[1])
        if self.states is not None:
            if not is_sym(s):
                return z3.BoolVal(s in self.states)
            if len(self.states) == self.rng[1] - self.rng[0] + 1:
                return z3.And(s >= self.rng[0], s <= self.rng[1])
            return z3.Or([s == v for v in sorted(self.states)])
        return z3.And(s >= self.rng[0], s <= self.rng[1]) if is_sym(s) else z3.BoolVal(self.rng[0] <= s <= self.rng[1])

    def prove(self, name, run, what, lift=None):
        """run(I, ctx) -> (goal formula, dict of named terms for the counterexample)"""
        t0 = time.time()
        oid = 'C06/%s/%s' % (self.a.name, name)
        try:
            paths, status = explore_closure(run, time_limit=120)
        except (Unsupported, z3.Z3Exception) as u:
            self.rep.add(oid, 'undecided', 'z3', time.time() - t0, detail='outside the subset: %s' % u)
            return None
        if status != 'ok':
            self.rep.add(oid, 'undecided', 'z3', time.time() - t0, detail='path budget')
            return None
        cex = None
        for ctx, r in paths:
            if isinstance(r, Raise):
                goal, terms = z3.BoolVal(False), {'raises': r.cls.__name__ + ': ' + r.why}
            else:
                goal, terms = r
            if goal is True:
                continue
            res, m = ctx.check_final(z3.Not(toz3(goal)))
            if res == z3.unsat:
                continue
            if res == z3.unknown:
                self.rep.add(oid, 'undecided', 'z3', time.time() - t0, detail='solver unknown')
                return None
            cex = {}
            for k, v in terms.items():
                if isinstance(v, str):
                    cex[k] = v
                elif isinstance(v, tuple):
                    cex[k] = tuple(x if isinstance(x, int) else m.eval(x, model_completion=True).as_long() for x in v)
                elif isinstance(v, int):
                    cex[k] = v
                else:
                    cex[k] = m.eval(v, model_completion=True).as_long()
            break
        if cex is None:
            self.rep.add(oid, 'proved', 'z3', time.time() - t0, detail=what)
            if len(self.rep.samples) < 10 and name in ('hT', 'hL'):
                self.rep.sample(dict(obligation=oid, statement=what, paths=len(paths)))
            return True
        self.failed.append((name, what, cex))
        return False

    # -- the lemmas
    def lemma_range(self):
        a = self.a

        def run(I, ctx):
            s = self.sym_state(ctx, '')
            c = self.sym_char(ctx, '')
            i = self.sym_pos(ctx)
            t = a.step(I, s, i, FixedStr([c]).chars[0])
            return self.in_range(t), dict(state=s, symbol=c, pos=i)
        init = a.init_state()
        ok0 = (init[1] if isinstance(init, tuple) else init)
        if not (self.rng[0] <= ok0 <= self.rng[1]):
            self.failed.append(('init', 'initial state in range', dict(init=ok0)))
        return self.prove('range', run, 'state stays in %r; no table index / conversion can fail for alphabet symbols' % (self.rng,))

    def lemma_hR(self):
        a = self.a

        def run(I, ctx):
            s = self.sym_state(ctx, '')
            c1, c2 = self.sym_char(ctx, '1'), self.sym_char(ctx, '2')
            i = self.sym_pos(ctx)
            ctx.add(c1 != c2)
            t1 = a.step(I, s, i, c1)
            t2 = a.step(I, s, i, c2)
            return z3.Not(self.st_eq(t1, t2)), dict(state=s, a=c1, b=c2, pos=i)
        return self.prove('hR', run, 'different symbols from the same state give different states')

    def lemma_hL(self):
        a = self.a

        def run(I, ctx):
            s1, s2 = self.sym_state(ctx, '1'), self.sym_state(ctx, '2')
            c = self.sym_char(ctx, '')
            i = self.sym_pos(ctx)
            ctx.add(z3.Not(self.st_eq(s1, s2)))
            if isinstance(s1, tuple):
                ctx.add(s1[0] == s2[0])     # the position component advances identically
            t1 = a.step(I, s1, i, c)
            t2 = a.step(I, s2, i, c)
            return z3.Not(self.st_eq(t1, t2)), dict(state1=s1, state2=s2, a=c, pos=i)
        return self.prove('hL', run, 'the same symbol from different states gives different states')

    def transposition_models(self, limit=40):
        """all (a, b) for which an adjacent transposition can go unnoticed (state/position quantified away)"""
        a = self.a
        found = set()
        for _ in range(limit):
            def run(I, ctx):
                s = self.sym_state(ctx, '')
                c1, c2 = self.sym_char(ctx, '1'), self.sym_char(ctx, '2')
                i = self.sym_pos(ctx)
                ctx.add(c1 != c2)
                for (x, y) in found:
                    ctx.add(z3.Not(z3.And(c1 == x, c2 == y)))
                t1 = a.step(I, a.step(I, s, i, c1), i + 1, c2)
                t2 = a.step(I, a.step(I, s, i, c2), i + 1, c1)
                return z3.Not(self.st_eq(t1, t2)), dict(state=s, a=c1, b=c2, pos=i)
            paths, status = explore_closure(run, time_limit=120)
            new = None
            for ctx, r in paths:
                if isinstance(r, Raise):
                    return None
                goal, terms = r
                res, m = ctx.check_final(z3.Not(toz3(goal)))
                if res == z3.unknown:
                    return None
                if res == z3.sat:
                    new = (m.eval(terms['a'], model_completion=True).as_long(), m.eval(terms['b'], model_completion=True).as_long())
                    break
            if new is None:
                return found
            found.add(new)
        return None

    def lemma_hT(self):
        a = self.a

        def run(I, ctx):
            s = self.sym_state(ctx, '')
            c1, c2 = self.sym_char(ctx, '1'), self.sym_char(ctx, '2')
            i = self.sym_pos(ctx)
            ctx.add(c1 != c2)
            t1 = a.step(I, a.step(I, s, i, c1), i + 1, c2)
            t2 = a.step(I, a.step(I, s, i, c2), i + 1, c1)
            return z3.Not(self.st_eq(t1, t2)), dict(state=s, a=c1, b=c2, pos=i)
        return self.prove('hT', run, 'swapping two adjacent different symbols changes the state')

    def lemma_hC(self, calc_name='calc_check_digit'):
        """forward folds: step(s, calc(s)) == good, with calc the real calc_check_digit over checksum() == s"""
        a = self.a
        calc = front.func_of(getattr(a.mod, calc_name), Func)

        def run(I, ctx):
            s = self.sym_state(ctx, '')
            key = (a.modname, 'checksum')
            old = CONTRACTS.get(key)
            CONTRACTS[key] = lambda I_, fn, args, kwargs: a.out(I_, s)
            try:
                c = I.call(calc, ['payload'], dict(a.kwargs), {}, calc.module)
            finally:
                if old is None:
                    del CONTRACTS[key]
                else:
                    CONTRACTS[key] = old
            c = tostr(c)
            if len(c) != 1:
                return z3.BoolVal(False), dict(state=s, note='check digit is not one character')
            ch = c.chars[0]
            inalpha = toz3(in_set(ch, self.alpha)) if not isinstance(ch, int) else z3.BoolVal(self.alpha.contains(ch))
            t = a.step(I, s, 0, ch)
            return z3.And(inalpha, self.st_eq(t, self.good)), dict(state=s)
        return self.prove('hC', run, 'appending the generated check symbol reaches the accepting state')


def report_failures(rep, L, replayer):
    for name, what, cex in L.failed:
        oid = 'C06/%s/%s' % (L.a.name, name)
        data = dict(function=L.a.modname + ':checksum', lemma=name, statement=what, solver_model=cex)
        repro = False
        try:
            r = replayer(L, name, cex)
            if r:
                data.update(r)
                repro = bool(r.get('reproduced'))
        except Exception as e:      # noqa: B902
            data['replay_error'] = '%s: %s' % (type(e).__name__, e)
        rep.refuted(oid, L.a.modname, name, 'lemma %s (%s) fails' % (name, what), data, repro)


def lift_to_strings(L, name, cex):
    """BFS for a prefix that drives the real checksum() into the state of the counterexample, then show the failure
    of the user-visible guarantee on the real validate()"""
    import itertools
    a = L.a
    alpha = a.alphabet
    mod = a.mod
    kw = dict(a.kwargs)
    st = cex.get('state', cex.get('state1'))
    sa, sb = cex.get('a'), cex.get('b')
    ca = chr(sa) if sa is not None else None
    cb = chr(sb) if sb is not None else None
    # directed search with the symbols (and position) of the solver model: random payloads completed to valid strings
    import random
    rnd = random.Random(0)
    calc = getattr(mod, 'calc_check_digit', None) or getattr(mod, 'calc_check_digits', None)
    pos = cex.get('pos', 0) or 0
    if ca is not None and calc is not None:
        for L in list(range(2, 14)) + [pos + 2, pos + 3, pos + 4, pos + 10, pos + 18]:
            for _ in range(300):
                payload = [rnd.choice(alpha) for _ in range(L)]
                i = rnd.randrange(L)
                if name == 'hT' and cb is not None and i + 1 < L:
                    payload[i], payload[i + 1] = ca, cb
                else:
                    payload[i] = ca
                p0 = ''.join(payload)
                try:
                    w = p0 + calc(p0, **kw)
                    if not mod.is_valid(w, **kw):
                        continue
                except Exception:      # noqa: B902
                    continue
                if name == 'hT' and cb is not None and i + 1 < L:
                    w2 = w[:i] + w[i + 1] + w[i] + w[i + 2:]
                    if w2 != w and mod.is_valid(w2, **kw):
                        return dict(input=w, altered=w2, reproduced=True, demonstrates='adjacent transposition accepted')
                else:
                    for c in ([cb] if cb else alpha):
                        if c != w[i]:
                            w2 = w[:i] + c + w[i + 1:]
                            if mod.is_valid(w2, **kw):
                                return dict(input=w, altered=w2, reproduced=True, demonstrates='single substitution accepted')
    # search valid strings of length <= 6 over the alphabet whose single substitution / transposition stays valid
    for n in range(1, 6):
        for tup in itertools.product(alpha[:12] if len(alpha) > 12 else alpha, repeat=n):
            w = ''.join(tup)
            try:
                if not mod.is_valid(w, **kw):
                    continue
            except Exception:
                continue
            for i in range(n):
                if name in ('hR', 'hL', 'range'):
                    for c in alpha:
                        if c != w[i]:
                            w2 = w[:i] + c + w[i + 1:]
                            if mod.is_valid(w2, **kw):
                                return dict(input=w, altered=w2, reproduced=True, demonstrates='single substitution accepted')
                if name == 'hT' and i + 1 < n and w[i] != w[i + 1]:
                    w2 = w[:i] + w[i + 1] + w[i] + w[i + 2:]
                    if mod.is_valid(w2, **kw):
                        return dict(input=w, altered=w2, reproduced=True, demonstrates='adjacent transposition accepted')
    return dict(reproduced=False)


def lift_completion(L, name, cex):
    import itertools
    a = L.a
    kw = dict(a.kwargs)
    calc = getattr(a.mod, 'calc_check_digit', None) or getattr(a.mod, 'calc_check_digits')
    for n in range(0, 5):
        for tup in itertools.product(a.alphabet[:12], repeat=n):
            p = ''.join(tup)
            try:
                c = calc(p, **kw)
                ok = a.mod.is_valid(p + c, **kw)
            except Exception as e:      # noqa: B902
                return dict(input=p, reproduced=True, demonstrates='calc_check_digit raises %s' % type(e).__name__)
            if not ok:
                return dict(input=p, check=c, reproduced=True, demonstrates='payload + generated check symbol is invalid')
            others = [x for x in a.alphabet if x != c and a.mod.is_valid(p + x, **kw)]
            if others and len(c) == 1:
                return dict(input=p, check=c, other=others[0], reproduced=True, demonstrates='a second check symbol is accepted')
    return dict(reproduced=False)


# ---------------------------------------------------------------------------------------------- per algorithm
def crosscheck_fold(rep, a, maxlen=4):
    """the real checksum() executed symbolically on strings of length k equals the fold of the extracted step"""
    t0 = time.time()
    alpha = ISet.of(a.alphabet)
    for k in range(0, maxlen + 1):
        def run(I, ctx):
            chars = [ctx.fresh_char(alpha, 'w') for _ in range(k)]
            real = I.call(a.fn, [FixedStr(chars) if k else ''], dict(a.kwargs), {}, a.fn.module)
            st = a.init_state()
            seq = list(reversed(chars)) if a.reverse else chars
            for i, c in enumerate(seq):
                st = a.step(I, st, i, c)
            if isinstance(st, tuple):
                st = st[1]
            st = a.out(I, st)
            return toz3(Eq(real, st)), {}
        paths, status = explore_closure(run, time_limit=60)
        ok = status == 'ok'
        for ctx, r in paths:
            if isinstance(r, Raise):
                if k == 0:
                    continue      # checksum('') may raise (int('')): both sides are then outside the fold
                ok = False
                break
            res, m = ctx.check_final(z3.Not(r[0]))
            if res != z3.unsat:
                ok = False
                break
        rep.add('C06/%s/extraction-agrees-with-checksum/len=%d' % (a.name, k), 'proved' if ok else 'undecided', 'z3',
                (time.time() - t0) / (k + 1), detail='real checksum() == fold of the extracted step on all strings of this length')


def algo_generic(rep, name, modname, alphabet, rng, good, kwargs=None, lemmas=('range', 'hR', 'hL', 'hT', 'hC'), calc='calc_check_digit'):
    try:
        a = Algo(name, modname, alphabet, kwargs)
    except Unsupported as u:
        rep.add('C06/%s/extraction' % name, 'undecided', 'ast', detail=str(u))
        return None
    rep.functions.update([modname + ':checksum', modname + ':' + calc, modname + ':validate'])
    rep.add('C06/%s/extraction' % name, 'proved', 'ast', detail='form=%s reverse=%s position-dependent=%s' % (a.kind, a.reverse, a.uses_pos))
    goodst = (None, good) if a.kind == 'paritysum' else good
    R = a.reachable()
    if R is not None:
        # the invariant is the exact reachable set of the real step, not a range written down here
        rep.add('C06/%s/reachable-states' % name, 'exhaustive', 'eval', detail='closure of the initial state under the extracted step: %d states %r..%r'
                % (len(R), min(R), max(R)))
        rng = R
    if a.out_expr is not None:
        if R is None:
            rep.add('C06/%s/hOut' % name, 'undecided', 'eval', detail='checksum() returns a function of the state but the state set was not computed')
            return None
        outs = {}
        for st in sorted(R):
            I0 = Interp(Ctx())
            I0.fnstack.append('c06')
            outs.setdefault(a.out(I0, st), []).append(st)
        pre = outs.get(good, [])
        if len(pre) != 1 or any(len(v) > 1 for v in outs.values()):
            rep.add('C06/%s/hOut' % name, 'undecided', 'eval', detail='the returned checksum is not an injective function of the state: %r' % (outs,))
            return None
        rep.add('C06/%s/hOut' % name, 'exhaustive', 'eval', detail='checksum() returns an injective function of the final state; accepting state %r' % pre[0])
        good = pre[0]
    L = Lemmas(rep, a, rng, good)
    crosscheck_fold(rep, a, 3 if len(alphabet) > 12 else 4)
    if 'range' in lemmas:
        L.lemma_range()
    if 'hR' in lemmas:
        L.lemma_hR()
    if 'hL' in lemmas:
        L.lemma_hL()
    if 'hT' in lemmas:
        L.lemma_hT()
    if 'hC' in lemmas:
        L.lemma_hC(calc)
    report_failures(rep, L, lambda L_, n, c: lift_completion(L_, n, c) if n == 'hC' else lift_to_strings(L_, n, c))
    return a, L


def glue_validate(rep, name, modname, kwargs=None, needs_nonempty=True):
    """validate(w) returns w iff checksum(w) == good (any exception in checksum becomes InvalidFormat): by symbolic
    execution of the real validate() with checksum() as an uninterpreted contract"""
    mod = __import__(modname, fromlist=['x'])
    vf = front.func_of(mod.validate, Func)
    t0 = time.time()
    outcomes = set()

    def run(I, ctx):
        key = (modname, 'checksum')
        old = CONTRACTS.get(key)
        r = ctx.fresh_int('ck')
        raises = ctx.fresh_bool('ckraises')

        def stub(I_, fn, args, kwargs_):
            if I_.ctx.branch(raises):
                raise Raise(ValueError, 'checksum raises')
            return r
        CONTRACTS[key] = stub
        try:
            v = I.call(vf, ['12'], dict(kwargs or {}), {}, vf.module)
        finally:
            if old is None:
                del CONTRACTS[key]
            else:
                CONTRACTS[key] = old
        return ('return', v, r, raises)
    paths, status = explore_closure(run)
    ok = status == 'ok'
    E = sys.modules['stdnum.exceptions']
    good = 0 if modname in ('stdnum.luhn', 'stdnum.verhoeff', 'stdnum.damm') else 1
    for ctx, r in paths:
        if isinstance(r, Raise):
            if not issubclass(r.cls, E.ValidationError):
                ok = False
            # a raise must be either "checksum raised" (InvalidFormat) or "checksum != good" (InvalidChecksum)
            continue
        _, v, ck, raises = r
        if v != '12':
            ok = False
        if ctx.check(ck != good) != z3.unsat:
            ok = False
    rep.add('C06/%s/glue-validate' % name, 'proved' if ok else 'refuted', 'z3', time.time() - t0,
            detail='validate(w) returns w exactly when checksum(w) == %d; exceptions of checksum become InvalidFormat' % good)
    if not ok:
        rep.refuted('C06/%s/glue-validate' % name, modname, 'glue', 'validate() is not "checksum == good"', dict(function=modname + ':validate'), False)


def bounded_native(rep, tier):
    """a bounded stand-in next to the lemmas (labelled bounded, never counted as proved): the user-visible guarantees on the
    real functions for every string up to a small length.  It still speaks when a rewritten checksum() no longer matches
    one of the fold forms the extraction recognises."""
    import itertools
    hexa = '0123456789abcdef'
    a36 = '0123456789ABCDEFGHIJKLMNOPQRSTUVWXYZ'
    cases = [
        # name, module, alphabet, kwargs, payload alphabet, transpositions claimed, pairs excluded
        ('luhn[10]', 'stdnum.luhn', '0123456789', {}, None, True, {('0', '9'), ('9', '0')}),
        ('luhn[16]', 'stdnum.luhn', hexa, dict(alphabet=hexa), None, False, ()),
        ('verhoeff', 'stdnum.verhoeff', '0123456789', {}, None, True, ()),
        ('damm', 'stdnum.damm', '0123456789', {}, None, True, ()),
        ('mod_11_2', 'stdnum.iso7064.mod_11_2', '0123456789X', {}, '0123456789', True, ()),
        ('mod_37_2[37]', 'stdnum.iso7064.mod_37_2', a36 + '*', dict(alphabet=a36 + '*'), a36, True, ()),
        ('mod_11_10', 'stdnum.iso7064.mod_11_10', '0123456789', {}, None, False, ()),
        ('mod_37_36[36]', 'stdnum.iso7064.mod_37_36', a36, dict(alphabet=a36), None, False, ()),
        ('mod_37_36[10]', 'stdnum.iso7064.mod_37_36', '0123456789', dict(alphabet='0123456789'), None, False, ()),
    ]
    t0 = time.time()
    total = 0
    for name, modname, alpha, kw, palpha, transp, excl in cases:
        mod = __import__(modname, fromlist=['x'])
        palpha = palpha or alpha
        maxlen = (4 if tier == 'quick' else 5) if len(palpha) <= 12 else (2 if tier == 'quick' else 3)
        bad = None
        for n in range(1, maxlen + 1):
            for tup in itertools.product(palpha, repeat=n):
                p0 = ''.join(tup)
                total += 1
                try:
                    c = mod.calc_check_digit(p0, **kw)
                    w = p0 + c
                    if not mod.is_valid(w, **kw):
                        bad = (p0, w, 'payload + generated check symbol is invalid')
                        break
                    for x in alpha:
                        if x != c and mod.is_valid(p0 + x, **kw):
                            bad = (w, p0 + x, 'a second check symbol is accepted')
                            break
                    if bad:
                        break
                    for i in range(len(w)):
                        # a substituted character is of the same kind: the check-only symbol (X, *) stays in the last place
                        for x in (alpha if i == len(w) - 1 else palpha):
                            if x != w[i] and mod.is_valid(w[:i] + x + w[i + 1:], **kw):
                                bad = (w, w[:i] + x + w[i + 1:], 'single substitution accepted')
                                break
                        if bad:
                            break
                        if transp and i + 1 < len(w) and w[i] != w[i + 1] and (w[i], w[i + 1]) not in excl \
                                and (w[i + 1] in palpha or i + 1 < len(w) - 1):
                            w2 = w[:i] + w[i + 1] + w[i] + w[i + 2:]
                            if (w2[-1] in alpha and all(ch in palpha for ch in w2[:-1])) and mod.is_valid(w2, **kw):
                                bad = (w, w2, 'adjacent transposition accepted')
                                break
                except Exception as e:      # noqa: B902
                    bad = (p0, None, 'raises %s: %s' % (type(e).__name__, e))
                if bad:
                    break
            if bad:
                break
        if bad:
            rep.refuted('C06/%s/bounded-native' % name, modname, 'bounded: ' + bad[2], '%s: %s (%r -> %r)' % (name, bad[2], bad[0], bad[1]),
                        dict(function=modname + ':validate', input=bad[0], altered=bad[1], opts=kw, demonstrates=bad[2]), True)
    rep.add('C06/bounded-native', 'bounded', 'eval', time.time() - t0,
            detail='%d payloads (every string up to length 2..5 over each alphabet) through the real calc_check_digit/is_valid: completion, '
                   'uniqueness, substitutions, claimed transpositions' % total)



def check(prop, tier, args):
    rep = Report('C06', tier, 'proof', './check C06 --tier %s' % tier, seed=int(os.environ.get('VERIF_SEED', '0') or 0))
    isets.warm()
    lean_ok = run_lean(rep, tier)
    import stdnum.verhoeff as vh
    import stdnum.damm as dm
    # Verhoeff: reversed fold, position dependent; completion through rev_check (associativity of the D5 table)
    r = algo_generic(rep, 'verhoeff', 'stdnum.verhoeff', '0123456789', (0, 9), 0, lemmas=('range', 'hR', 'hL', 'hT'))
    if r:
        verhoeff_completion(rep, *r)
    algo_generic(rep, 'damm', 'stdnum.damm', '0123456789', (0, 9), 0)
    algo_generic(rep, 'mod_11_2', 'stdnum.iso7064.mod_11_2', '0123456789X', (0, 10), 1)
    for alpha in ('0123456789ABCDEFGHIJKLMNOPQRSTUVWXYZ*', '0123456789X'):
        algo_generic(rep, 'mod_37_2[%d]' % len(alpha), 'stdnum.iso7064.mod_37_2', alpha, (0, len(alpha) - 1), 1, kwargs=dict(alphabet=alpha))
    algo_generic(rep, 'mod_11_10', 'stdnum.iso7064.mod_11_10', '0123456789', (0, 9), 1, lemmas=('range', 'hR', 'hL', 'hC'))
    for alpha in ('0123456789ABCDEFGHIJKLMNOPQRSTUVWXYZ', '0123456789'):
        algo_generic(rep, 'mod_37_36[%d]' % len(alpha), 'stdnum.iso7064.mod_37_36', alpha, (0, len(alpha) - 1), 1,
                     kwargs=dict(alphabet=alpha), lemmas=('range', 'hR', 'hL', 'hC'))
    # Luhn for every even alphabet size
    sizes = [10, 16] + ([n for n in range(2, 41, 2) if n not in (10, 16)] if True else [])
    for n in sizes:
        alpha = '0123456789abcdef'[:n] if n <= 16 else LUHN_N[:n]
        if n == 10:
            alpha = '0123456789'
        luhn(rep, n, alpha)
    mod97(rep)
    for nm, mn, kw in (('luhn', 'stdnum.luhn', None), ('verhoeff', 'stdnum.verhoeff', None), ('damm', 'stdnum.damm', None),
                       ('mod_11_2', 'stdnum.iso7064.mod_11_2', None), ('mod_37_2', 'stdnum.iso7064.mod_37_2', None),
                       ('mod_11_10', 'stdnum.iso7064.mod_11_10', None), ('mod_37_36', 'stdnum.iso7064.mod_37_36', None),
                       ('mod_97_10', 'stdnum.iso7064.mod_97_10', None)):
        glue_validate(rep, nm, mn, kw)
    bounded_native(rep, tier)
    rep.assumptions += [
        'a Python for-loop / comprehension over a sequence is List.foldl of its body (glue between the extracted step and Lean)',
        'integers are mathematical (exact for Python ints)',
        'alphabets: decimal, hex, 0-9X, 0-9A-Z, 0-9A-Z*, and Luhn mod N for every even N in 2..40 (enumerated)',
        'the hybrid systems Mod 11-10 and Mod 37-36 are not claimed for transpositions (the property does not claim it)',
    ]
    return rep.finish()


def verhoeff_completion(rep, a, L):
    """rev_check hypotheses for Verhoeff: act c t = mult[c][t]"""
    import stdnum.verhoeff as vh
    mult = vh._multiplication_table
    t0 = time.time()
    D = ISet.of('0123456789')
    calc = front.func_of(vh.calc_check_digit, Func)

    def tab(I, x, y):
        return I.subscript(I.subscript(mult, x), y)

    def hFirst(I, ctx):
        c = ctx.fresh_char(D, 'c')
        s1 = a.step(I, a.init_state(), 0, c)
        s0 = a.step(I, a.init_state(), 0, ord('0'))
        return toz3(Eq(s1, tab(I, c - 48, s0))), dict(c=c)

    def hAct(I, ctx):
        c = ctx.fresh_int('c')
        ctx.add(z3.And(c >= 0, c <= 9))
        s = L.sym_state(ctx, '')
        i = L.sym_pos(ctx)
        x = L.sym_char(ctx, 'x')
        lhs = tab(I, c, a.step(I, s, i, x))
        rhs = a.step(I, tab(I, c, s), i, x)
        return toz3(Eq(lhs, rhs)), dict(c=c, state=s, pos=i, symbol=x)

    def hGood(I, ctx):
        t = L.sym_state(ctx, '')
        key = ('stdnum.verhoeff', 'checksum')
        old = CONTRACTS.get(key)
        CONTRACTS[key] = lambda I_, fn, args, kw: t
        try:
            c = tostr(I.call(calc, ['1'], {}, {}, calc.module))
        finally:
            if old is None:
                del CONTRACTS[key]
            else:
                CONTRACTS[key] = old
        ch = c.chars[0]
        return z3.And(len(c) == 1, toz3(in_set(ch, D)) if not isinstance(ch, int) else D.contains(ch), toz3(Eq(tab(I, ch - 48, t), 0))), dict(t=t)

    def hUniq(I, ctx):
        t = L.sym_state(ctx, '')
        c1, c2 = ctx.fresh_int('c1'), ctx.fresh_int('c2')
        ctx.add(z3.And(c1 >= 0, c1 <= 9, c2 >= 0, c2 <= 9, c1 != c2))
        return z3.Not(toz3(Eq(tab(I, c1, t), tab(I, c2, t)))), dict(t=t, c1=c1, c2=c2)
    n0 = len(L.failed)
    L.prove('rev_check.hFirst', hFirst, 'first folded symbol c gives act c (state after the neutral symbol 0)')
    L.prove('rev_check.hAct', hAct, 'left multiplication commutes with every step (associativity of the D5 table)')
    L.prove('rev_check.hGood', hGood, 'calc_check_digit returns the symbol whose action sends checksum(payload+"0") to 0')
    L.prove('rev_check.hUniq', hUniq, 'different check symbols act differently (uniqueness)')
    new = L.failed[n0:]
    del L.failed[n0:]
    for name, what, cex in new:
        r = lift_completion(L, name, cex)
        rep.refuted('C06/verhoeff/' + name, 'stdnum.verhoeff', name, 'lemma %s (%s) fails' % (name, what),
                    dict(function='stdnum.verhoeff:calc_check_digit', lemma=name, solver_model=cex, **r), bool(r.get('reproduced')))


def luhn(rep, n, alpha):
    name = 'luhn[%d]' % n
    try:
        a = Algo(name, 'stdnum.luhn', alpha, dict(alphabet=alpha))
    except Unsupported as u:
        rep.add('C06/%s/extraction' % name, 'undecided', 'ast', detail=str(u))
        return
    rep.functions.update(['stdnum.luhn:checksum', 'stdnum.luhn:calc_check_digit', 'stdnum.luhn:validate'])
    rep.add('C06/%s/extraction' % name, 'proved', 'ast', detail='form=%s reverse=%s' % (a.kind, a.reverse))
    L = Lemmas(rep, a, (0, n - 1), 0)
    if n in (10, 16, 2, 36):
        crosscheck_fold(rep, a, 3)
    L.lemma_range()
    L.lemma_hR()
    L.lemma_hL()
    # adjacent transpositions: the exact set of undetected pairs must be {first,last} x {last,first}
    t0 = time.time()
    models = L.transposition_models()
    want = {(ord(alpha[0]), ord(alpha[-1])), (ord(alpha[-1]), ord(alpha[0]))} if n > 2 else None
    oid = 'C06/%s/hT-exact-failure-set' % name
    if models is None:
        rep.add(oid, 'undecided', 'z3', time.time() - t0)
    elif n == 2:
        # with two symbols first and last are the only pair
        ok = models <= {(ord(alpha[0]), ord(alpha[1])), (ord(alpha[1]), ord(alpha[0]))}
        rep.add(oid, 'proved' if ok else 'refuted', 'z3', time.time() - t0, detail='undetected swaps: %r' % sorted(models))
    elif models == want:
        rep.add(oid, 'proved', 'z3', time.time() - t0, detail='undetected adjacent swaps are exactly %r <-> %r' % (alpha[0], alpha[-1]))
    else:
        extra = sorted(models - want) or sorted(want - models)
        x, y = extra[0]
        w = None
        import itertools
        import stdnum.luhn as lm
        for k in range(2, 5):
            for tup in itertools.product(alpha, repeat=k):
                s = ''.join(tup)
                for i in range(k - 1):
                    if s[i] == chr(x) and s[i + 1] == chr(y) and lm.is_valid(s, alpha):
                        s2 = s[:i] + s[i + 1] + s[i] + s[i + 2:]
                        if lm.is_valid(s2, alpha) == ((x, y) in models) and ((x, y) in models) != ((x, y) in want):
                            w = (s, s2)
                            break
                if w:
                    break
            if w:
                break
        rep.refuted(oid, 'stdnum.luhn', 'hT-exact-failure-set[%d]' % n, 'Luhn mod %d: undetected adjacent swaps are %r, expected %r' % (n, sorted(models), sorted(want)),
                    dict(function='stdnum.luhn:validate', alphabet=alpha, input=w[0] if w else None, altered=w[1] if w else None,
                         solver_models=sorted(models)), w is not None)
    # completion through rev_check with act c (p, s) = (p, (s + value(c)) mod n)
    import stdnum.luhn as lm
    calc = front.func_of(lm.calc_check_digit, Func)
    A = ISet.of(alpha)

    def val(I, ch):
        return I.index_of(alpha, FixedStr([ch]))

    def hFirst(I, ctx):
        c = ctx.fresh_char(A, 'c')
        s1 = a.step(I, a.init_state(), 0, c)
        s0 = a.step(I, a.init_state(), 0, ord(alpha[0]))
        return z3.And(toz3(Eq(s1[0], s0[0])), toz3(Eq(s1[1], (s0[1] + val(I, c)) % n))), dict(c=c)

    def hAct(I, ctx):
        c = ctx.fresh_int('c')
        ctx.add(z3.And(c >= 0, c < n))
        s = L.sym_state(ctx, '')
        i = L.sym_pos(ctx)
        x = L.sym_char(ctx, 'x')
        t = a.step(I, s, i, x)
        u = a.step(I, (s[0], (s[1] + c) % n), i, x)
        return z3.And(toz3(Eq(t[0], u[0])), toz3(Eq((t[1] + c) % n, u[1]))), dict(c=c, state=s, symbol=x)

    def hGood(I, ctx):
        t = ctx.fresh_int('t')
        ctx.add(z3.And(t >= 0, t < n))
        key = ('stdnum.luhn', 'checksum')
        old = CONTRACTS.get(key)
        CONTRACTS[key] = lambda I_, fn, args, kw: t
        try:
            c = tostr(I.call(calc, ['1'], dict(alphabet=alpha), {}, calc.module))
        finally:
            if old is None:
                del CONTRACTS[key]
            else:
                CONTRACTS[key] = old
        if len(c) != 1:
            return z3.BoolVal(False), dict(t=t)
        ch = c.chars[0]
        v = val(I, ch) if not isinstance(ch, int) else alpha.index(chr(ch))
        return toz3(Eq((t + v) % n, 0)), dict(t=t)
    n0 = len(L.failed)
    L.prove('rev_check.hFirst', hFirst, 'first folded symbol adds its value to the state after the neutral symbol')
    L.prove('rev_check.hAct', hAct, 'adding a constant commutes with every step')
    L.prove('rev_check.hGood', hGood, 'calc_check_digit returns the symbol that completes the sum to 0 mod n')
    report_failures(rep, L, lambda L_, nm, c: lift_completion(L_, nm, c) if nm.startswith('rev_check') else lift_to_strings(L_, nm, c))


def mod97(rep):
    name = 'mod_97_10'
    modname = 'stdnum.iso7064.mod_97_10'
    alpha = ALNUM
    try:
        a = Algo(name, modname, alpha)
    except Unsupported as u:
        rep.add('C06/%s/extraction' % name, 'undecided', 'ast', detail=str(u))
        return
    rep.functions.update([modname + ':checksum', modname + ':_to_base10', modname + ':calc_check_digits', modname + ':validate'])
    rep.add('C06/%s/extraction' % name, 'proved', 'ast', detail='form=%s (Horner residue of the base-36 expansion)' % a.kind)
    L = Lemmas(rep, a, (0, 96), 1)
    L.lemma_range()
    L.lemma_hL()
    # substitutions digit<->digit and letter<->letter
    for kind, cs in (('digits', '0123456789'), ('letters', 'ABCDEFGHIJKLMNOPQRSTUVWXYZ')):
        L2 = Lemmas(rep, a, (0, 96), 1)
        L2.alpha = ISet.of(cs)
        L2.a = a

        def run(I, ctx, L2=L2):
            s = L2.sym_state(ctx, '')
            c1, c2 = L2.sym_char(ctx, '1'), L2.sym_char(ctx, '2')
            ctx.add(c1 != c2)
            return z3.Not(L2.st_eq(a.step(I, s, 0, c1), a.step(I, s, 0, c2))), dict(state=s, a=c1, b=c2)
        L.prove('hR[%s]' % kind, run, 'different %s from the same state give different states' % kind)
    # transposition of two adjacent different digits
    Ld = Lemmas(rep, a, (0, 96), 1)
    Ld.alpha = ISet.of('0123456789')

    def runT(I, ctx):
        s = Ld.sym_state(ctx, '')
        c1, c2 = Ld.sym_char(ctx, '1'), Ld.sym_char(ctx, '2')
        ctx.add(c1 != c2)
        t1 = a.step(I, a.step(I, s, 0, c1), 1, c2)
        t2 = a.step(I, a.step(I, s, 0, c2), 1, c1)
        return z3.Not(Ld.st_eq(t1, t2)), dict(state=s, a=c1, b=c2)
    L.prove('hT[digits]', runT, 'swapping two adjacent different digits changes the state')
    # simulation: residue of the big integer: ((A * 10^d + e) mod 97) == (((A mod 97) * 10^d + e) mod 97)
    t0 = time.time()
    s = z3.Solver()
    A, e = z3.Ints('A e')
    s.add(A >= 0, e >= 0, e < 36)
    s.add(z3.Or(z3.And(e < 10, (A * 10 + e) % 97 != ((A % 97) * 10 + e) % 97), z3.And(e >= 10, (A * 100 + e) % 97 != ((A % 97) * 100 + e) % 97)))
    r = s.check()
    rep.add('C06/mod_97_10/simulation', 'proved' if r == z3.unsat else 'undecided', 'z3', time.time() - t0,
            detail="int(''.join(str(v))) % 97 equals the Horner residue (hypothesis h of Fold.simulation)")
    # two check digits: for every residue r of payload+'00' the generated '%02d' % (98 - r) completes to residue 1
    calc = front.func_of(a.mod.calc_check_digits, Func)

    def hC2(I, ctx):
        r0 = ctx.fresh_int('r')          # residue of the payload
        ctx.add(z3.And(r0 >= 0, r0 <= 96))
        key = (modname, 'checksum')
        old = CONTRACTS.get(key)
        # checksum(payload + '00') = (r0 * 100) % 97
        CONTRACTS[key] = lambda I_, fn, args, kw: (r0 * 100) % 97
        try:
            c = tostr(I.call(calc, ['12'], {}, {}, calc.module))
        finally:
            if old is None:
                CONTRACTS.pop(key, None)
            else:
                CONTRACTS[key] = old
        if len(c) != 2:
            return z3.BoolVal(False), dict(r=r0)
        st = r0
        for ch in c.chars:
            st = a.step(I, st, 0, ch)
        digs = z3.And(*[toz3(in_set(ch, ISet.of('0123456789'))) if not isinstance(ch, int) else z3.BoolVal(48 <= ch <= 57) for ch in c.chars])
        return z3.And(digs, toz3(Eq(st, 1))), dict(r=r0)
    L.prove('hC[two digits]', hC2, "payload + calc_check_digits(payload) has residue 1 and the check is two digits")
    report_failures(rep, L, lambda L_, nm, c: lift_completion(L_, nm, c) if nm.startswith('hC') else lift_to_strings(L_, nm, c))
