"""C03: the outcome of validate() depends only on compact(input).

A dependency (frame) contract: validate(x, **o) is a function of (compact(x), o).  Decided on the real ASTs: the raw
parameter may flow only (a) into the module's own compact(), or (b) into a function whose own use of the argument is a
normalisation that absorbs the module's compact (clean with a superset of the deleted characters, strip, the same case
mapping) - computed by running compact() of both sides through the symbolic executor and comparing the resulting
normalisation chains.  Everything else is undecided and gets the bounded stand-in (decorated variants of corpus
numbers), labelled bounded.
"""
import ast
import importlib
import os
import random
import sys
import time
import types

from .. import front, isets, absstr, corpus
from ..ctx import Ctx, Unsupported, Raise, Restart, Infeasible
from ..interp import Interp, Func
from ..sym import AbstractStr
from ..absstr import raw_input, Chain
from ..report import Report
from ..replay import call_real

EXCLUDED = {
    'stdnum.isan': 'compact strips the check digits validate inspects (named in the property)',
    'stdnum.meid': 'compact strips the check digit validate inspects (named in the property)',
    'stdnum.us.ssn': 'validate constrains hyphen positions (named in the property)',
    'stdnum.us.itin': 'validate constrains hyphen positions (named in the property)',
    'stdnum.us.ein': 'validate constrains hyphen positions (named in the property)',
    'stdnum.us.atin': 'validate constrains hyphen positions (named in the property)',
    'stdnum.us.tin': 'validate constrains hyphen positions (named in the property)',
}

_CHAIN = {}


class _Materialised(Exception):
    def __init__(self, chain):
        self.chain = chain


class _ChainInterp(Interp):
    """stops as soon as the abstract input has to be materialised: only the normalisation chain is wanted"""

    def _materialise_primary(self, a):
        raise _Materialised(a.chain)


def chain_of(pyfunc, kwargs=None):
    """normalisation chain of a compact-like function applied to the raw input, or None when it is not a pure chain
    (prefix removal, padding ...).  -> (Chain or None, pure: bool)"""
    key = (pyfunc.__module__, pyfunc.__qualname__)
    if key in _CHAIN:
        return _CHAIN[key]
    fn = front.func_of(pyfunc, Func)
    ctx = Ctx((), 5)
    ctx.long_bound = 40
    I = _ChainInterp(ctx)
    res = (None, False)
    try:
        v = I.call(fn, [raw_input()], dict(kwargs or {}), {}, fn.module)
        if isinstance(v, AbstractStr) and v.mat is None and ctx.primary is None and not ctx.new:
            res = (v.chain, True)
        elif ctx.primary_params is not None:
            res = (ctx.primary_params, False)      # a chain followed by further processing
    except _Materialised as m_:
        res = (m_.chain, False)           # a chain followed by further processing
    except (Unsupported, Raise, Restart, Infeasible, Exception):     # noqa: B902
        res = (None, False)
    _CHAIN[key] = res
    return res


class Flow:
    """where the raw value of a parameter flows inside one function"""

    def __init__(self, fn, param):
        self.fn, self.param = fn, param
        self.sinks = []        # (callee object or name, arg index, node)
        self.other = []        # source text of uses that are not plain call arguments
        self.run()

    def run(self):
        raw = {self.param}
        self.block(self.fn.node.body, raw)

    def uses(self, expr, raw):
        """record uses of raw names inside expr"""
        if expr is None:
            return
        parents = {}
        for n in ast.walk(expr):
            for c in ast.iter_child_nodes(n):
                parents[c] = n
        for n in ast.walk(expr):
            if isinstance(n, ast.Name) and n.id in raw and isinstance(n.ctx, ast.Load):
                p = parents.get(n)
                if isinstance(p, ast.Call) and n in p.args:
                    self.sinks.append((p.func, p.args.index(n), p))
                elif isinstance(p, ast.keyword):
                    self.other.append(ast.unparse(parents.get(p, p)))
                else:
                    self.other.append(ast.unparse(p if p is not None else n))

    def block(self, stmts, raw):
        for s in stmts:
            raw = self.stmt(s, raw)
        return raw

    def stmt(self, s, raw):
        if isinstance(s, ast.Expr):
            if not isinstance(s.value, ast.Constant):
                self.uses(s.value, raw)
            return raw
        if isinstance(s, ast.Assign):
            self.uses(s.value, raw) if not (isinstance(s.value, ast.Name) and s.value.id in raw) else None
            raw = set(raw)
            for t in s.targets:
                for n in ast.walk(t):
                    if isinstance(n, ast.Name):
                        if isinstance(s.value, ast.Name) and s.value.id in raw and len(s.targets) == 1 and isinstance(t, ast.Name):
                            raw.add(n.id)
                        else:
                            raw.discard(n.id)
            return raw
        if isinstance(s, ast.AugAssign):
            self.uses(s.value, raw)
            if isinstance(s.target, ast.Name) and s.target.id in raw:
                self.other.append(ast.unparse(s))
            return raw
        if isinstance(s, ast.Return):
            self.uses(s.value, raw)
            return raw
        if isinstance(s, ast.If):
            self.uses(s.test, raw)
            a = self.block(s.body, set(raw))
            b = self.block(s.orelse, set(raw))
            return a | b
        if isinstance(s, ast.Try):
            a = self.block(s.body, set(raw))
            out = set(a) | set(raw)
            for h in s.handlers:
                out |= self.block(h.body, set(raw) | a)
            out |= self.block(s.orelse, set(a))
            out |= self.block(s.finalbody, set(out))
            return out
        if isinstance(s, (ast.For, ast.While)):
            self.uses(s.iter if isinstance(s, ast.For) else s.test, raw)
            a = self.block(s.body, set(raw))
            a = self.block(s.body, set(raw) | a)
            return raw | a | self.block(s.orelse, set(raw) | a)
        if isinstance(s, ast.Raise):
            self.uses(s.exc, raw)
            return raw
        if isinstance(s, (ast.Pass, ast.Import, ast.ImportFrom, ast.Global, ast.Break, ast.Continue)):
            return raw
        for n in ast.walk(s):
            if isinstance(n, ast.Name) and n.id in raw:
                self.other.append('statement ' + type(s).__name__)
                break
        return raw


def resolve_callee(fn, funcnode):
    """python object a call target refers to (module globals, attribute chains on modules, local imports)"""
    m = fn.module
    local = {}
    for n in ast.walk(fn.node):
        if isinstance(n, ast.ImportFrom):
            try:
                mod = importlib.import_module(n.module)
            except ImportError:
                continue
            for a in n.names:
                try:
                    local[a.asname or a.name] = getattr(mod, a.name)
                except AttributeError:
                    try:
                        local[a.asname or a.name] = importlib.import_module(n.module + '.' + a.name)
                    except ImportError:
                        pass
        elif isinstance(n, ast.Import):
            for a in n.names:
                try:
                    local[a.asname or a.name.split('.')[0]] = importlib.import_module(a.name if a.asname else a.name.split('.')[0])
                except ImportError:
                    pass

    def ev(e):
        if isinstance(e, ast.Name):
            if e.id in local:
                return local[e.id]
            return m.__dict__.get(e.id, getattr(__import__('builtins'), e.id, None))
        if isinstance(e, ast.Attribute):
            b = ev(e.value)
            return getattr(b, e.attr, None) if b is not None else None
        return None
    return ev(funcnode)


def factors_through(pyfunc, argidx, chain_m, depth=0, seen=None):
    """does pyfunc use its argidx-th argument only through normalisations that absorb chain_m?
    -> (True, why) | (False, why) | (None, why)"""
    seen = seen or set()
    if depth > 6 or pyfunc in seen:
        return None, 'recursion limit'
    seen = seen | {pyfunc}
    import stdnum.util as util
    if pyfunc is util.clean:
        return None, 'clean() needs its delete set'       # handled by the caller (needs the call node)
    if not isinstance(pyfunc, types.FunctionType) or not (pyfunc.__module__ or '').startswith('stdnum'):
        return False, 'flows into %s' % getattr(pyfunc, '__name__', pyfunc)
    fn = front.func_of(pyfunc, Func)
    params = [a.arg for a in fn.node.args.args]
    if argidx >= len(params):
        return None, 'varargs'
    # a compact-like function: compare chains
    ch, pure = chain_of(pyfunc)
    if ch is not None and chain_m is not None and ch.absorbs(chain_m) and argidx == 0 and pyfunc.__name__ == 'compact':
        return True, 'compact of %s absorbs the normalisation' % pyfunc.__module__
    fl = Flow(fn, params[argidx])
    if fl.other:
        return False, '%s.%s uses the raw value: %s' % (pyfunc.__module__, pyfunc.__name__, fl.other[0][:60])
    for callee_node, idx, call in fl.sinks:
        callee = resolve_callee(fn, callee_node)
        if callee is None:
            return None, 'unresolved callee %s' % ast.unparse(callee_node)
        if callee is util.clean:
            ok, why = clean_absorbs(fn, call, chain_m)
        else:
            ok, why = factors_through(callee, idx, chain_m, depth + 1, seen)
        if ok is not True:
            return ok, why
    return True, 'all flows absorb the normalisation'


def clean_absorbs(fn, call, chain_m):
    from ..isets import ISet
    if chain_m is None:
        return None, 'module compact is not a pure normalisation chain'
    d = ''
    if len(call.args) > 1:
        if not isinstance(call.args[1], ast.Constant) or not isinstance(call.args[1].value, str):
            return None, 'clean() with a computed delete set'
        d = call.args[1].value
    q = Chain(True, ISet.of(d))
    # the chain continues with whatever follows (strip/upper): absorbing at the clean level is what matters for the
    # delete set; case and strip of the module's compact must then also be re-applied by the callee: conservative
    if q.D.iv and not chain_m.D.subset(q.D):
        return False, 'clean(number, %r) keeps characters that compact() removes' % d
    if not chain_m.D.subset(q.D):
        return False, 'clean(number, %r) keeps characters that compact() removes' % d
    return None, 'clean(number, %r) followed by further normalisation' % d


def decorated_variants(rnd, mod, x, chain, k=12):
    """strings with the same compact() as x: separators of the delete set inserted, case flipped, look-alikes"""
    import stdnum.util as util
    out = []
    D = ''
    if chain is not None:
        D = ''.join(chr(c) for c in chain.D.members(limit=40) if c < 128)
    looks = {}
    for kch, v in util._char_map.items():
        looks.setdefault(v, []).append(kch)
    # deterministic decorations that many compact() functions undo: zero padding, the country prefix, the canonical and the
    # formatted presentation (kept only when compact() really maps them to the same value, below)
    cc = mod.__name__.split('.')[1] if mod.__name__.count('.') >= 2 else ''
    fixed = ['0' + x, '00' + x, '0' * 12 + x, '0' * 25 + x, x.lstrip('0'), x.lstrip(' 0')]
    if cc:
        fixed += [cc.upper() + x, cc.lower() + x, cc.upper() + ' ' + x, cc.upper() + '-' + x]
    try:
        fixed.append(mod.compact(x))
        if hasattr(mod, 'format'):
            fixed.append(mod.format(x))
    except Exception:     # noqa: B902
        pass
    for y in fixed:
        try:
            if y != x and y not in out and mod.compact(y) == mod.compact(x):
                out.append(y)
        except Exception:     # noqa: B902
            pass
    for _ in range(k):
        y = list(x)
        op = rnd.choice(['sep', 'case', 'look', 'ws', 'sep'])
        if op == 'sep' and D:
            y.insert(rnd.randint(0, len(y)), rnd.choice(D))
        elif op == 'case':
            i = rnd.randrange(len(y)) if y else 0
            if y:
                y[i] = y[i].swapcase()
        elif op == 'look':
            idx = [i for i, c in enumerate(y) if c in looks]
            if idx:
                i = rnd.choice(idx)
                y[i] = rnd.choice(looks[y[i]])
        else:
            y = [rnd.choice(' \t\n')] + y + [rnd.choice(' \t\n')]
        y = ''.join(y)
        try:
            if mod.compact(y) == mod.compact(x) and y != x:
                out.append(y)
        except Exception:     # noqa: B902
            pass
    return out


def find_pair(mod, chain, hint):
    """two inputs with the same compact() that validate() treats differently (directed: decorated corpus and synthesised
    numbers, white-list members where the module has one)"""
    rnd = random.Random(0)
    m = mod.__name__
    nums = corpus.valid_numbers(m, 40) + corpus.synth_valid(m, 40)
    wl = getattr(mod, 'whitelist', None)
    if wl:
        nums = list(sorted(wl))[:40] + nums
    for x in nums:
        rx = call_real(m + ':validate', [x])
        for y in decorated_variants(rnd, mod, x, chain, 16):
            ry = call_real(m + ':validate', [y])
            if outcome(rx) != outcome(ry):
                return dict(input=x, variant=y, real=[list(rx[:2]), list(ry[:2])])
    return None


def outcome(res):
    return ('return', res[1]) if res[0] == 'return' else ('raise', 'ValidationError' if 'ValidationError' in res[3] else res[1])


def bounded(rep, tier, mods, chains):
    rnd = random.Random(int(os.environ.get('VERIF_SEED', '0') or 0))
    n = 0
    t0 = time.time()
    per = 6 if tier == 'quick' else 40
    for m in mods:
        mod = importlib.import_module(m)
        nums = corpus.valid_numbers(m, per) + corpus.synth_valid(m, per, int(os.environ.get('VERIF_SEED', '0') or 0))
        # near misses and garbage too
        extra = []
        for x in nums[:3]:
            if x:
                extra.append(x[:-1] + ('0' if x[-1] != '0' else '1'))
                extra.append(x[1:])
        for x in nums + extra:
            rx = call_real(m + ':validate', [x])
            for y in decorated_variants(rnd, mod, x, chains.get(m)):
                n += 1
                ry = call_real(m + ':validate', [y])
                if outcome(rx) != outcome(ry):
                    rep.refuted('C03/%s/bounded' % m, m, 'same compact form, different outcome',
                                'validate(%r) and validate(%r) differ although compact() is equal' % (x, y),
                                dict(function=m + ':validate', input=x, variant=y, real=[list(rx[:2]), list(ry[:2])]), True)
                    break
            else:
                continue
            break
    rep.add('C03/bounded-differential', 'bounded', 'eval', time.time() - t0, detail='%d decorated variants over %d modules (bounded stand-in)' % (n, len(mods)))


def check(prop, tier, args):
    rep = Report('C03', tier, 'proof', './check C03 --tier %s' % tier, seed=int(os.environ.get('VERIF_SEED', '0') or 0))
    isets.warm()
    absstr.table_lemmas()
    mods = [m for m in front.number_modules() if hasattr(m, 'compact')]
    if args.modules:
        mods = [m for m in mods if m.__name__ in args.modules]
    chains = {}
    undecided_mods = []
    import json as _json
    try:
        ledger = set(_json.load(open(os.path.join(os.path.dirname(os.path.dirname(os.path.dirname(os.path.abspath(__file__)))), 'baseline', 'C03_syntactic.json')))['modules'])
    except Exception:      # noqa: B902
        ledger = set()
    for mod in mods:
        m = mod.__name__
        if m in EXCLUDED:
            continue
        t0 = time.time()
        oid = 'C03/%s/validate-reads-input-only-through-compact' % m
        rep.functions.add(m + ':validate')
        ch, pure = chain_of(mod.compact)
        chains[m] = ch
        fn = front.func_of(mod.validate, Func)
        param = fn.node.args.args[0].arg
        fl = Flow(fn, param)
        verdict, why = True, 'raw parameter flows only into compact()'
        if fl.other:
            verdict, why = False, 'validate() uses the raw value directly: %s' % fl.other[0][:80]
        else:
            for callee_node, idx, call in fl.sinks:
                callee = resolve_callee(fn, callee_node)
                if callee is None:
                    verdict, why = None, 'unresolved callee %s' % ast.unparse(callee_node)
                    break
                if callee is mod.compact and idx == 0:
                    continue
                import stdnum.util as util
                if callee is util.clean:
                    ok, w = clean_absorbs(fn, call, ch if pure else None)
                else:
                    ok, w = factors_through(callee, idx, ch if pure else None)
                if ok is not True:
                    verdict, why = ok, w
                    break
                why = w
        if verdict is False and fl.other and m in ledger:
            # the obligation was discharged on the pinned tree and now fails: validate() touches the raw value directly
            pair = find_pair(mod, ch, fl.other[0])
            rep.refuted(oid, m, 'raw argument used outside compact', 'validate() of %s now uses the raw argument directly (%s); on the pinned tree it read it only through compact()' % (m, fl.other[0][:80]),
                        dict(function=m + ':validate', raw_use=fl.other[:3], **(pair or {})), pair is not None)
            continue
        if verdict is True:
            rep.add(oid, 'proved', 'ast', time.time() - t0, detail=why)
            if len(rep.samples) < 4:
                rep.sample(dict(obligation=oid, sinks=[ast.unparse(c) for _, _, c in fl.sinks][:4], chain=repr(ch.key()) if ch else None))
        else:
            # not syntactic: undecided here, covered by the bounded stand-in (a refutation needs a replayed pair)
            rep.add(oid, 'undecided', 'ast', time.time() - t0, detail=why)
            undecided_mods.append(m)
    bounded(rep, tier, [m.__name__ for m in mods if m.__name__ not in EXCLUDED], chains)
    rep.bounded += undecided_mods
    rep.extra['excluded_by_the_property'] = EXCLUDED
    rep.assumptions += [
        'C14: clean() is map-then-delete; strip/upper/lower of a normalised string depend only on that string',
        'functions called with non-raw arguments are deterministic functions of their arguments (C13 frame result)',
    ]
    return rep.finish()
