"""C05: check-digit generators and validators agree.

The relation between generator, payload and check position is read off the comparison in validate()
(`gen(ARG) != number[POS]`, `number[POS] not in gen(ARG)`); on every accepting path of validate(), under its path
condition: (presence) gen(ARG(v)) is the character at POS, (independence) gen does not depend on the characters at POS,
(alteration) replacing the character(s) at POS by any other alphanumeric character makes validate() raise.
Completion (payload + generated check is never a checksum error) is a bounded stand-in on mutated corpus payloads.
"""
import ast
import importlib
import os
import random
import sys
import time
import types
import z3

from .. import front, accept, corpus
from ..interp import Func
from ..sym import FixedStr, LongStr, AbstractStr, tostr, str_eq, Not, Or, in_set, simp, is_sym
from ..isets import ISet
from ..ctx import Raise, Unsupported
from ..report import Report
from ..replay import call_real, is_validation_error

ALNUM = ISet([(48, 57), (65, 90)])

# formats that document an alternative check character (named in the property)
ALTERNATIVES = {
    'stdnum.es.cif': 'letter or digit form of the same check value',
    'stdnum.pe.cui': 'digit or letter form of the same check value',
    'stdnum.bg.vat': 'legal / physical / foreigner / other schemes',
    'stdnum.gb.vat': '0 / 42 / 55 style checks',
    'stdnum.tw.ubn': 'special case for the seventh digit 7',
    'stdnum.do.rnc': 'white-list', 'stdnum.do.cedula': 'white-list', 'stdnum.do.ncf': 'white-list',
}


# formats with several numbering schemes of the same length, only some of which have a generator: completion cannot be
# constructed from the generator alone (the corpus-based harness would apply the wrong scheme)
MULTI_SCHEME = {'stdnum.lv.pvn': 'legal entities use checksum()==3, persons a generator'}


def relations(mod):
    """[(generator function object, ARG expr, POS expr, op)] from the comparisons in validate()"""
    fn = front.func_of(mod.validate, Func)
    out = []
    var = None
    for n in ast.walk(fn.node):
        if not isinstance(n, ast.Compare) or len(n.ops) != 1:
            continue
        sides = [n.left, n.comparators[0]]
        for a, b in (sides, sides[::-1]):
            if isinstance(a, ast.Call) and isinstance(b, ast.Subscript) and isinstance(b.value, ast.Name):
                name = a.func.attr if isinstance(a.func, ast.Attribute) else (a.func.id if isinstance(a.func, ast.Name) else None)
                if not name or 'calc_check' not in name or len(a.args) != 1:
                    continue
                from .c03 import resolve_callee
                g = resolve_callee(fn, a.func)
                if not isinstance(g, types.FunctionType):
                    continue
                # the generator argument must be an expression over the same variable
                names = {x.id for x in ast.walk(a.args[0]) if isinstance(x, ast.Name)}
                if names != {b.value.id}:
                    continue
                op = type(n.ops[0]).__name__
                if op in ('NotEq', 'Eq', 'NotIn', 'In'):
                    out.append((n.lineno, g, a.args[0], b, op, b.value.id))
    # `number.endswith(gen(number[a:-k]))`: the check position is what the payload slice leaves out, number[-k:]
    for n in ast.walk(fn.node):
        if isinstance(n, ast.Call) and isinstance(n.func, ast.Attribute) and n.func.attr == 'endswith' and isinstance(n.func.value, ast.Name) \
                and len(n.args) == 1 and isinstance(n.args[0], ast.Call) and len(n.args[0].args) == 1:
            a = n.args[0]
            name = a.func.attr if isinstance(a.func, ast.Attribute) else (a.func.id if isinstance(a.func, ast.Name) else None)
            if not name or 'calc_check' not in name:
                continue
            var = n.func.value.id
            e = a.args[0]
            if isinstance(e, ast.Subscript) and isinstance(e.value, ast.Name) and e.value.id == var and isinstance(e.slice, ast.Slice) \
                    and isinstance(e.slice.upper, ast.UnaryOp) and isinstance(e.slice.upper.op, ast.USub) and isinstance(e.slice.upper.operand, ast.Constant):
                k = e.slice.upper.operand.value
                from .c03 import resolve_callee
                g = resolve_callee(fn, a.func)
                if isinstance(g, types.FunctionType) and isinstance(k, int) and k > 0:
                    pos = ast.parse('%s[-%d:]' % (var, k), mode='eval').body
                    out.append((n.lineno, g, e, pos, 'NotEq', var + ':convention'))
    out.sort(key=lambda t: t[0])
    return fn, [t[1:] for t in out]


def indices(expr, var, n):
    """indices of the characters an expression over `var` selects from a string of length n"""
    try:
        r = eval(compile(ast.Expression(expr), '<pos>', 'eval'), {}, {var: tuple(range(n))})
    except Exception:      # noqa: B902
        return None
    if isinstance(r, int):
        return [r]
    if isinstance(r, tuple) and all(isinstance(x, int) for x in r):
        return list(r)
    return None


def convention_relations(mod):
    """fallback when validate() contains no `gen(ARG) OP number[POS]` comparison: the usual conventions, kept when they hold
    on every corpus number: the check is the last k characters, computed from the rest or from the whole number"""
    out = []
    nums = []
    for x in corpus.valid_numbers(mod.__name__, 20):
        try:
            nums.append(mod.validate(x))
        except Exception:      # noqa: B902
            pass
    if not nums:
        return out
    for name in sorted(k for k in dir(mod) if k.startswith('calc_check_digit')):
        g = getattr(mod, name)
        if not isinstance(g, types.FunctionType):
            continue
        for whole in (False, True):
            ok = True
            k = None
            for v in nums:
                try:
                    for kk in (1, 2):
                        ck = g(v if whole else v[:-kk])
                        if isinstance(ck, str) and len(ck) == kk and v.endswith(ck):
                            break
                    else:
                        ok = False
                        break
                    k = kk if k in (None, kk) else 0
                except Exception:      # noqa: B902
                    ok = False
                    break
            if ok and k:
                arg = ast.parse('number' if whole else 'number[:-%d]' % k, mode='eval').body
                pos = ast.parse('number[-1]' if k == 1 else 'number[-%d:]' % k, mode='eval').body
                out.append((g, arg, pos, 'NotEq', 'number:convention'))
                break
        else:
            # the check characters lead the number (e.g. the Australian ABN): computed from the rest
            k = None
            ok = bool(nums)
            for v in nums:
                try:
                    for kk in (1, 2):
                        ck = g(v[kk:])
                        if isinstance(ck, str) and len(ck) == kk and v.startswith(ck):
                            break
                    else:
                        ok = False
                        break
                    k = kk if k in (None, kk) else 0
                except Exception:      # noqa: B902
                    ok = False
                    break
            if ok and k:
                arg = ast.parse('number[%d:]' % k, mode='eval').body
                pos = ast.parse('number[0]' if k == 1 else 'number[:%d]' % k, mode='eval').body
                out.append((g, arg, pos, 'NotEq', 'number:convention'))
    return out


def checker_factory(modname):
    mod = importlib.import_module(modname)
    vfn, rels = relations(mod)
    if not rels:
        rels = convention_relations(mod)

    def checker(sw, p, v, opts, n):
        if opts.get('validate_check_digits') is False:
            return
        vs = tostr(v)
        L = len(vs)
        used = False
        for g, arg_e, pos_e, op, var in rels:
            pos = indices(pos_e, var.split(':')[0], L)
            arg = indices(arg_e, var.split(':')[0], L)
            if not pos or arg is None or any(i >= L or i < -L for i in pos):
                continue
            gf = front.func_of(g, Func)
            argv = simp(FixedStr([vs.chars[i] for i in arg]))
            posv = FixedStr([vs.chars[i] for i in pos])
            oid = 'len=%s/%s' % (n, g.__name__)

            # presence + independence
            def run(I, ctx):
                r = I.call(gf, [argv], {}, {}, gf.module)
                fresh = [ctx.fresh_char(ALNUM, 'q') for _ in pos]
                chars2 = list(vs.chars)
                for i, c in zip(pos, fresh):
                    chars2[i] = c
                argv2 = simp(FixedStr([chars2[i] for i in arg]))
                r2 = I.call(gf, [argv2], {}, {}, gf.module)
                return (r, r2)
            paths, status = sw.closure(p, run)
            if status != 'ok':
                sw.undecided.append(dict(n=n, why='closure budget'))
                continue
            applicable = False
            ok = True
            for ctx, r in paths:
                if isinstance(r, Raise):
                    # the generator raises on this path: validate() would have raised too unless this relation is
                    # not the one that accepted the number (alternative schemes)
                    continue
                r1, r2 = r
                if not isinstance(r1, (str, FixedStr)):
                    continue
                r1s = tostr(r1)
                if op in ('NotEq', 'Eq'):
                    c = str_eq(r1s, posv) if len(r1s) == len(pos) else False
                else:
                    if len(pos) != 1:
                        continue
                    c = Or(*[in_set(posv.chars[0], ISet([(ch, ch)])) if isinstance(ch, int) else (posv.chars[0] == ch) for ch in r1s.chars]) if True else None
                holds = c is True or (c is not False and ctx.entails(c))
                if not holds:
                    if len(rels) == 1 and modname not in ALTERNATIVES and var.endswith(':convention'):
                        # the only generator relation of the format: a valid number whose check character is not the generated one
                        w = sw.witness(ctx, p.ctx.primary, None if c is False else Not(c))
                        if w:
                            rv = call_real(modname + ':validate', [w[0]], opts, w[1])
                            gen = None
                            if rv[0] == 'return':
                                try:
                                    vv = rv[1]
                                    gen = g(''.join(vv[i] for i in arg))
                                    present = ''.join(vv[i] for i in pos)
                                    bad = (gen != present) if op in ('NotEq', 'Eq') else (present not in gen)
                                except Exception as e2:      # noqa: B902
                                    bad = True
                                    gen = 'raises %s' % type(e2).__name__
                            else:
                                bad = False
                            ok = False
                            applicable = True
                            sw.finding('check character differs from the generated one', g.__name__, input=w[0], opts=opts, today=w[1], approx=ctx.approx or bool(getattr(ctx, 'soft', None)),
                                       real=[list(rv[:2]), gen], reproduced=bool(bad))
                    # otherwise: this relation is not the one that justified acceptance on this path (several schemes)
                    continue
                applicable = True
                if isinstance(r2, (str, FixedStr)) and len(tostr(r2)) == len(r1s):
                    c2 = str_eq(r1s, r2)
                    if not (c2 is True or (c2 is not False and ctx.entails(c2))):
                        w = sw.witness(ctx, p.ctx.primary, None if c2 is False else Not(c2))
                        if w:
                            ok = False
                            sw.finding('generator depends on the check character', g.__name__, input=w[0], opts=opts, today=w[1],
                                       approx=ctx.approx or bool(getattr(ctx, 'soft', None)), real=None, reproduced=False)
            if not applicable:
                continue
            used = True
            sw.obligations.append((oid + '/presence+independence', 'proved' if ok else 'refuted', ''))
            if ok:
                sw.__dict__.setdefault('established', set()).add((L, g.__name__))      # length of the canonical number, generator
            # alteration: any other alphanumeric character at one check position is rejected
            if modname in ALTERNATIVES:
                sw.obligations.append((oid + '/alteration', 'skipped', 'documented alternative: ' + ALTERNATIVES[modname]))
                continue
            for i in pos:
                orig = vs.chars[i]

                def run2(I, ctx, i=i, orig=orig):
                    q = ctx.fresh_char(ALNUM, 'q')
                    ctx.assume(Not(in_set(q, ISet([(orig, orig)]))) if isinstance(orig, int) else (q != orig))
                    chars2 = list(vs.chars)
                    chars2[i] = q
                    ctx.altered = FixedStr(chars2)
                    return I.call(vfn, [FixedStr(chars2)], dict(opts), {}, vfn.module)
                paths, status = sw.closure(p, run2, budget=600, time_limit=60)
                if status != 'ok':
                    sw.undecided.append(dict(n=n, why='alteration closure budget'))
                    continue
                okA = True
                for ctx, r in paths:
                    if isinstance(r, Raise):
                        continue
                    m = ctx.model()
                    if m is None:
                        continue
                    from ..explore import witness_string, today_of
                    x = witness_string(ctx, p.ctx.primary, m)
                    x2 = witness_string(ctx, ctx.altered, m)
                    vx = witness_string(ctx, vs, m)
                    td = today_of(ctx, m)
                    r1 = call_real(modname + ':validate', [vx], opts, td)
                    r2 = call_real(modname + ':validate', [x2], opts, td)
                    rep_ = r1[0] == 'return' and r2[0] == 'return' and vx != x2
                    okA = False
                    sw.finding('altered check character accepted', 'position %d of %d' % (i, L), input=vx, altered=x2, opts=opts, today=td,
                               approx=ctx.approx or bool(getattr(ctx, 'soft', None)), real=[list(r1[:2]), list(r2[:2])], reproduced=rep_)
                sw.obligations.append((oid + '/alteration@%d' % i, 'proved' if okA else 'refuted', '%d paths' % len(paths)))
        if used and len(sw.samples) < 1:
            sw.samples.append(dict(n=n, relations=[(g.__name__, ast.unparse(a), ast.unparse(b), op) for g, a, b, op, var in rels]))
    return checker, rels


def completion_symbolic(modname, rels, lengths, tier, established=None):
    """the converse direction as an obligation: for every payload over the alphanumeric alphabet, at every length at which the
    generator relation was established on the accepting paths (presence obligation), the payload completed with the generated check character(s) never reaches a `raise
    InvalidChecksum` of validate().  -> (obligations, findings, undecided)"""
    from ..explore import explore_closure, witness_string
    mod = importlib.import_module(modname)
    vfn = front.func_of(mod.validate, Func)
    obligations, findings, undecided = [], [], []
    if modname in ALTERNATIVES or modname in MULTI_SCHEME:
        return obligations, findings, undecided
    t_mod = time.time()
    for n in lengths:
        if not isinstance(n, int) or n < 1:
            continue
        oid = 'len=%s/completion' % n
        if time.time() - t_mod > (100 if tier == 'quick' else 900):
            obligations.append((oid, 'undecided', 'module time limit'))
            continue
        app = []
        for g, arg_e, pos_e, op, var in rels:
            pos = indices(pos_e, var.split(':')[0], n)
            arg = indices(arg_e, var.split(':')[0], n)
            if not pos or not arg or op not in ('NotEq', 'Eq') or any(i >= n or i < -n for i in pos + arg):
                continue
            if established is not None and (n, g.__name__) not in established:
                continue      # not shown to be the scheme of this length (formats with several presentations, e.g. it.aic base 32)
            app.append((g, [i % n for i in arg], [i % n for i in pos]))
        if not app:
            continue
        if len({tuple(pos) for g, arg, pos in app}) != len(app):
            obligations.append((oid, 'undecided', 'several generators for one check position'))
            continue
        ordered, rest = [], list(app)
        while rest:
            free = [r_ for r_ in rest if not any(set(o[2]) & set(r_[1]) for o in rest if o is not r_)]
            if not free:
                ordered = None
                break
            ordered += free
            rest = [r_ for r_ in rest if r_ not in free]
        if ordered is None:
            obligations.append((oid, 'undecided', 'cyclic generator dependencies'))
            continue
        gfs = [(front.func_of(g, Func), g, arg, pos) for g, arg, pos in ordered]

        def run(I, ctx, n=n, gfs=gfs):
            chars = [ctx.fresh_char(ALNUM, 'y') for _ in range(n)]
            for gf, g, arg, pos in gfs:
                try:
                    ck = I.call(gf, [simp(FixedStr([chars[i] for i in arg]))], {}, {}, gf.module)
                except Raise:
                    return 'skip'          # the generator rejects the payload: not a well-formed payload
                if not isinstance(ck, (str, FixedStr)) or len(tostr(ck)) != len(pos):
                    return 'skip'
                for i, c in zip(pos, tostr(ck).chars):
                    chars[i] = c
            ctx.completed = FixedStr(chars)
            return I.call(vfn, [FixedStr(chars)], {}, {}, vfn.module)
        try:
            paths, status = explore_closure(run, budget=3000 if tier == 'quick' else 20000, time_limit=40 if tier == 'quick' else 400, cur_n=n)
        except (Unsupported, z3.Z3Exception) as u:
            obligations.append((oid, 'undecided', 'outside the subset: %s' % str(u)[:80]))
            continue
        st = 'proved' if status == 'ok' else 'undecided'
        for ctx, r in paths:
            if not (isinstance(r, Raise) and r.cls.__name__ == 'InvalidChecksum'):
                continue
            try:
                res, m = ctx.check_final()
            except z3.Z3Exception:
                res, m = z3.unknown, None
            if res == z3.unsat:
                continue
            if res == z3.unknown:
                st = 'undecided'
                continue
            y0 = witness_string(ctx, ctx.completed, m or ctx.s.model())
            # replay: complete the payload of the model with the real generator(s)
            try:
                ch = list(y0)
                for gf, g, arg, pos in gfs:
                    ck = g(''.join(ch[i] for i in arg))
                    for i, c in zip(pos, ck):
                        ch[i] = c
                y = ''.join(ch)
                rv = call_real(modname + ':validate', [y])
                rep_ = rv[0] == 'raise' and rv[1] == 'InvalidChecksum' and mod.compact(y) == y
            except Exception:      # noqa: B902
                y, rv, rep_ = y0, ('error',), False
            if rep_:
                st = 'refuted'
                findings.append(dict(property='C05', module=modname, kind='completion', key='completion', count=1, input=y, opts={}, today=None,
                                     approx=False, real=list(rv[:2]), reproduced=True))
                break
            st = 'undecided'
        obligations.append((oid, st, '%d paths' % len(paths)))
        if st == 'refuted':
            break
    return obligations, findings, undecided


def _task(arg):
    modname, lengths, tier = arg
    try:
        ch, rels = checker_factory(modname)
        if not rels:
            return dict(module=modname, norel=True, findings=[], obligations=[], undecided=[], samples=[], stats={})
        sw = accept.AcceptSweep(modname, lengths, ch, tier, 150 if tier == 'quick' else 900, 'C05')
        res = sw.run()
        est = getattr(sw, 'established', set())
        ob, fi, un = completion_symbolic(modname, rels, sorted({L_ for L_, _ in est}), tier, est)
        res['obligations'] = list(res['obligations']) + ob
        res['findings'] = list(res['findings']) + fi
        return res
    except Exception as e:      # noqa: B902
        import traceback
        return dict(module=modname, crash='%s: %s' % (type(e).__name__, str(e)[:200]), tb=traceback.format_exc()[-1200:])


def completion_bounded(rep, mods, tier):
    rnd = random.Random(int(os.environ.get('VERIF_SEED', '0') or 0))
    t0 = time.time()
    n = 0
    for m in mods:
        mod = importlib.import_module(m)
        try:
            vfn, rels = relations(mod)
            if not rels:
                rels = convention_relations(mod)
        except Exception:      # noqa: B902
            continue
        E = sys.modules['stdnum.exceptions']
        for x in corpus.valid_numbers(m, 8 if tier == 'quick' else 40):
            try:
                v = mod.validate(x)
            except Exception:      # noqa: B902
                continue
            if m in ALTERNATIVES or m in MULTI_SCHEME:
                continue
            # the relations that hold on this valid number (formats with several schemes: only the applicable ones)
            app = []
            for g, arg_e, pos_e, op, var in rels:
                pos = indices(pos_e, var.split(':')[0], len(v))
                arg = indices(arg_e, var.split(':')[0], len(v))
                if not pos or not arg or op not in ('NotEq', 'Eq'):
                    continue
                try:
                    ck = g(''.join(v[a] for a in arg))
                except Exception:      # noqa: B902
                    continue
                if isinstance(ck, str) and len(ck) == len(pos) and all(v[p_] == c for p_, c in zip(pos, ck)):
                    app.append((g, arg, pos))
            if not app:
                continue
            # apply the generators in dependency order: one whose payload contains another's check position comes later
            ordered = []
            rest = list(app)
            while rest:
                free = [r_ for r_ in rest if not any(set(o[2]) & set(r_[1]) for o in rest if o is not r_)]
                if not free:
                    ordered = None
                    break
                ordered += free
                rest = [r_ for r_ in rest if r_ not in free]
            if ordered is None:
                continue
            app = ordered
            allpos = {p_ for g, arg, pos in app for p_ in pos}
            payload = sorted({a for g, arg, pos in app for a in arg} - allpos)
            if not payload:
                continue
            for _ in range(6 if tier == 'quick' else 60):
                chars = list(v)
                i = rnd.choice(payload)
                if chars[i].isdigit():
                    chars[i] = rnd.choice('0123456789')
                elif chars[i].isalpha():
                    chars[i] = rnd.choice('ABCDEFGHIJKLMNOPQRSTUVWXYZ')
                ok = True
                for g, arg, pos in app:
                    try:
                        ck = g(''.join(chars[a] for a in arg))
                    except Exception:      # noqa: B902
                        ok = False
                        break
                    if not isinstance(ck, str) or len(ck) != len(pos):
                        ok = False
                        break
                    for p_, c in zip(pos, ck):
                        chars[p_] = c
                if not ok:
                    continue
                y = ''.join(chars)
                n += 1
                r = call_real(m + ':validate', [y])
                if r[0] == 'raise' and r[1] == 'InvalidChecksum':
                    rep.refuted('C05/%s/completion' % m, m, 'completion', 'payload completed with the generated check character(s) is rejected with a checksum error',
                                dict(function=m + ':validate', input=y, real=list(r[:2])), True, still_fails)
                    break
    rep.add('C05/completion', 'bounded', 'eval', time.time() - t0, detail='%d mutated corpus payloads completed with the generated check character (bounded stand-in)' % n)


def still_fails(k):
    w = k.get('witness', {})
    m = k['module']
    if 'altered' in w:
        r1 = call_real(m + ':validate', [w['input']], w.get('opts'), w.get('today'))
        r2 = call_real(m + ':validate', [w['altered']], w.get('opts'), w.get('today'))
        return r1[0] == 'return' and r2[0] == 'return'
    r = call_real(m + ':validate', [w.get('input')], w.get('opts'), w.get('today'))
    return r[0] == 'raise' and r[1] == 'InvalidChecksum'


def check(prop, tier, args):
    rep = Report('C05', tier, 'proof', './check C05 --tier %s' % tier, seed=int(os.environ.get('VERIF_SEED', '0') or 0))
    mods = []
    from ..sweep import GENERIC
    for m in front.number_modules():
        if m.__name__ in GENERIC:
            continue          # the generic algorithms work on caller-supplied alphabets: their guarantees are C06
        if any(k.startswith('calc_check_digit') for k in dir(m)):
            mods.append(m.__name__)
    if args.modules:
        mods = [m for m in mods if m in args.modules]
    units = accept.accepting_units(modules=mods)
    items = [(m, sorted({n for o, n in units.get(m, []) if n != 'long'}), tier) for m in mods if m in units]
    res = accept.run_modules(_task, items, 300 if tier == 'quick' else 2000)
    norel = []
    for m in sorted(res):
        r = res[m]
        if r.get('norel'):
            norel.append(m)
            continue
        rep.functions.update([m + ':validate'])
        if 'crash' in r:
            if r.get('timeout'):
                rep.add('C05/%s' % m, 'undecided', detail='time limit')
            else:
                rep.error('C05 sweep of %s crashed: %s' % (m, r['crash']))
            continue
        for f in r['findings']:
            oid = 'C05/%s/%s/%s' % (m, f['kind'], f['key'])
            rep.refuted(oid, m, f['kind'] + ' ' + f['key'], f['kind'] + ': ' + f['key'],
                        dict(function=m + ':validate', input=f.get('input'), altered=f.get('altered'), opts=f.get('opts'), today=f.get('today'), real=f.get('real')),
                        bool(f.get('reproduced')), still_fails, approx=bool(f.get('approx')) or not f.get('reproduced'))
        seen = {}
        for oid, st, detail in r['obligations']:
            key = 'C05/%s/%s' % (m, oid)
            if st == 'skipped':
                seen.setdefault(key, 'skipped')
            elif st == 'undecided':
                if seen.get(key) != 'refuted':
                    seen[key] = 'undecided:' + str(detail)
            elif st == 'proved' and seen.get(key) is None or seen.get(key) == 'proved':
                seen[key] = 'proved' if st == 'proved' else 'refuted'
            elif st != 'proved':
                seen[key] = 'refuted'
        for key, st in seen.items():
            if st == 'proved':
                rep.add(key, 'proved')
            elif st.startswith('undecided'):
                rep.add(key, 'undecided', detail=st[10:])
        if r['undecided']:
            rep.add('C05/%s/other' % m, 'undecided', detail='; '.join(sorted({u['why'][:60] for u in r['undecided']}))[:200])
        for s in r.get('samples', []):
            rep.sample(dict(module=m, **s))
    completion_bounded(rep, mods, tier)
    rep.extra['modules_without_a_generator_comparison_in_validate'] = norel
    rep.extra['documented_alternatives'] = ALTERNATIVES
    rep.assumptions += ['the generator/payload/position relation is the comparison found in validate() (modules where validate() delegates the '
                        'comparison, e.g. checksum()==constant formats, have no such relation and are listed)',
                        'completion: symbolic per accepting length over alphanumeric payloads (canonical presentations); mutated corpus payloads in addition (bounded)']
    return rep.finish()
