"""C08: conversions between formats preserve validity and identity.

Each converter gets the contract  requires src.validate(x) returns v;  ensures dst.validate(conv(v)) returns r with
embeds(v, r), and inverse(r) == v where the pair has one.  On every accepting path of the source validate() the
converter, the target validate() and the inverse are executed symbolically on the canonical value v under the path
condition.  Converters that take raw separated text are covered for the compact presentation symbolically and for the
space-/hyphen-separated presentations by a bounded native run over the corpus (labelled bounded).  de.stnr (class with
regex callbacks) and the MEID/ISAN binary forms are outside the subset: bounded.
"""
import importlib
import os
import random
import sys
import time
import z3

from .. import front, accept, corpus
from ..interp import Func
from ..sym import FixedStr, LongStr, AbstractStr, tostr, str_eq, Not, And, simp
from ..ctx import Raise, Unsupported
from ..report import Report
from ..replay import call_real, is_validation_error


def sl(a, b=None):
    return lambda s: FixedStr(tostr(s).chars[a:b])


# (source module, converter, kwargs, precondition on v (python predicate on length / prefix: symbolic-safe), target module,
#  embeds(v, r) -> condition, inverse (module, function) or None, what the inverse must give back (function of v))
def catalog():
    C = []

    def add(src, fn, dst, embeds, inverse=None, back=None, kw=None, pre=None, dst_kw=None):
        C.append(dict(src=src, fn=fn, dst=dst, embeds=embeds, inverse=inverse, back=back, kw=kw or {}, pre=pre, dst_kw=dst_kw or {}))
    add('stdnum.isbn', 'to_isbn13', 'stdnum.isbn', lambda v, r: str_eq(sl(3, 12)(r), sl(0, 9)(v)) if len(tostr(v)) == 10 else str_eq(r, v),
        inverse=('stdnum.isbn', 'to_isbn10'), back=lambda v: v, pre=lambda n, v: n in (10, 13) and (n == 10 or True))
    add('stdnum.isbn', 'to_isbn10', 'stdnum.isbn', lambda v, r: str_eq(sl(0, 9)(r), sl(3, 12)(v)) if len(tostr(v)) == 13 else str_eq(r, v),
        inverse=('stdnum.isbn', 'to_isbn13'), back=lambda v: v, pre=lambda n, v: n == 10 or (n == 13 and 'startswith978'))
    add('stdnum.ismn', 'to_ismn13', 'stdnum.ismn', lambda v, r: str_eq(sl(4)(r), sl(1)(v)) if len(tostr(v)) == 10 else str_eq(r, v))
    add('stdnum.issn', 'to_ean', 'stdnum.ean', lambda v, r: And(str_eq(sl(0, 3)(r), '977'), str_eq(sl(3, 10)(r), sl(0, 7)(v))))
    for m in ('stdnum.cusip', 'stdnum.gb.sedol', 'stdnum.de.wkn'):
        add(m, 'to_isin', 'stdnum.isin', lambda v, r: str_eq(sl(11 - len(tostr(v)), 11)(r), v))
    add('stdnum.es.ccc', 'to_iban', 'stdnum.es.iban', lambda v, r: str_eq(sl(4)(r), v), inverse=('stdnum.es.iban', 'to_ccc'), back=lambda v: v)
    add('stdnum.no.kontonr', 'to_iban', 'stdnum.no.iban', lambda v, r: str_eq(sl(4)(r), v), inverse=('stdnum.no.iban', 'to_kontonr'), back=lambda v: v,
        pre=lambda n, v: n == 11)
    add('stdnum.au.acn', 'to_abn', 'stdnum.au.abn', lambda v, r: str_eq(sl(2)(r), v))
    add('stdnum.fr.siret', 'to_siren', 'stdnum.fr.siren', lambda v, r: str_eq(r, sl(0, 9)(v)))
    add('stdnum.fr.siren', 'to_tva', 'stdnum.fr.tva', lambda v, r: str_eq(sl(len(tostr(r)) - 9)(r), v))
    add('stdnum.fr.siret', 'to_tva', 'stdnum.fr.tva', lambda v, r: str_eq(sl(len(tostr(r)) - 9)(r), sl(0, 9)(v)))
    add('stdnum.pe.cui', 'to_ruc', 'stdnum.pe.ruc', lambda v, r: str_eq(sl(2, 10)(r), sl(0, 8)(v)), inverse=('stdnum.pe.ruc', 'to_dni'), back=lambda v: FixedStr(tostr(v).chars[:8]))
    add('stdnum.in_.gstin', 'to_pan', 'stdnum.in_.pan', lambda v, r: str_eq(r, sl(2, 12)(v)))
    # validate() of the base-32 presentation returns the base-10 number: validate(to_base32(v)) == v is the round trip
    add('stdnum.it.aic', 'to_base32', 'stdnum.it.aic', lambda v, r: str_eq(r, v), pre=lambda n, v: n == 9)
    add('stdnum.ie.vat', 'convert', 'stdnum.ie.vat', lambda v, r: str_eq(sl(0, 7)(r)[:0] if False else sl(0, 0)(r), ''))
    return C


def native_violation(entry, x, today=None):
    """C08 on the real code for source input x (any presentation) -> description or None"""
    src, dst = entry['src'], entry['dst']
    rv = call_real(src + ':validate', [x], None, today)
    if rv[0] != 'return':
        return None
    v = rv[1]
    if entry['pre'] is not None and entry['pre'](len(v), v) is False:
        return None
    if entry['fn'] == 'to_isbn10' and len(v) == 13 and not v.startswith('978'):
        return None
    # the converters take a number of the source format in any presentation with separators - not another encoding of
    # it (AIC base-32 text, zero-padded account numbers): such inputs are converted from their canonical form
    try:
        cx = importlib.import_module(src).compact(x)
        if len(cx) != len(v):
            x = v
    except Exception:      # noqa: B902
        x = v
    r = call_real('%s:%s' % (src, entry['fn']), [x], entry['kw'], today)
    if r[0] == 'raise':
        if is_validation_error(r) and entry['fn'] in ('to_isbn10', 'to_dni'):
            return None        # documented: not every ISBN-13 has an ISBN-10 form
        return '%s(%r) raises %s' % (entry['fn'], x, r[1])
    if r[1] is None:
        return None
    d = call_real(dst + ':validate', [r[1]], entry['dst_kw'], today)
    if d[0] != 'return':
        return '%s(%r) = %r is rejected by %s (%s)' % (entry['fn'], x, r[1], dst, d[1])
    rc = call_real('%s:%s' % (src, entry['fn']), [v], entry['kw'], today)
    if rc[0] == 'return':
        dc = call_real(dst + ':validate', [rc[1]], entry['dst_kw'], today)
        if dc[0] != 'return' or dc[1] != d[1]:
            return 'the result depends on the presentation: %r -> %r but %r -> %r' % (x, d[1], v, dc[1] if dc[0] == 'return' else dc[1])
    if entry['inverse']:
        im, ifn = entry['inverse']
        b = call_real('%s:%s' % (im, ifn), [d[1]], None, today)
        if b[0] == 'raise':
            if not (is_validation_error(b) and ifn in ('to_isbn10', 'to_dni')):
                return '%s(%r) raises %s' % (ifn, d[1], b[1])
        else:
            bv = call_real(src + ':validate', [b[1]], None, today)
            want = v[:8] if ifn == 'to_dni' else v
            if src == 'stdnum.isbn' and len(want) != len(bv[1] if bv[0] == 'return' else ''):
                want = None
            if want is not None and not (bv[0] == 'return' and (bv[1] == want or (ifn == 'to_dni' and b[1] == want))):
                return '%s(%s(%r)) = %r, expected %r' % (ifn, entry['fn'], x, b[1], want)
    return None


def checker_factory(modname, entries):
    funcs = []
    for e in entries:
        src = importlib.import_module(e['src'])
        dst = importlib.import_module(e['dst'])
        conv = front.func_of(getattr(src, e['fn']), Func)
        dval = front.func_of(dst.validate, Func)
        inv = None
        if e['inverse']:
            inv = front.func_of(getattr(importlib.import_module(e['inverse'][0]), e['inverse'][1]), Func)
        funcs.append((e, conv, dval, inv))
    E = importlib.import_module('stdnum.exceptions')

    def checker(sw, p, v, opts, n):
        if opts and any(x is not None and x is not False and x != '' for x in opts.values()) and modname != 'stdnum.isbn':
            pass
        if modname == 'stdnum.isbn' and opts.get('convert'):
            return
        L = len(tostr(v))
        for e, conv, dval, inv in funcs:
            if e['pre'] is not None:
                ok = e['pre'](L, v)
                if ok is False:
                    continue
            oid = 'len=%s/%s' % (n, e['fn'])

            def run(I, ctx, e=e, conv=conv, dval=dval, inv=inv):
                if e['fn'] == 'to_isbn10' and L == 13:
                    # precondition: Bookland prefix 978 (the converter documents InvalidComponent otherwise)
                    ctx.assume(str_eq(FixedStr(tostr(v).chars[:3]), '978'))
                r = I.call(conv, [v], dict(e['kw']), {}, conv.module)
                if isinstance(r, AbstractStr):
                    r = I.materialise(r)
                d = I.call(dval, [r], dict(e['dst_kw']), {}, dval.module)
                if isinstance(d, AbstractStr):
                    d = I.materialise(d)
                b = None
                if inv is not None:
                    try:
                        b = I.call(inv, [d], {}, {}, inv.module)
                        if isinstance(b, AbstractStr):
                            b = I.materialise(b)
                    except Raise as r2:
                        if issubclass(r2.cls, E.ValidationError) and e['inverse'][1] in ('to_isbn10', 'to_dni'):
                            b = 'documented'
                        else:
                            raise
                return (r, d, b)
            try:
                u0 = getattr(sw, 'unknowns', 0)
                paths, status = sw.closure(p, run, budget=600, time_limit=60)
            except Unsupported as u:
                sw.undecided.append(dict(n=n, why='%s: outside the subset: %s' % (e['fn'], u)))
                continue
            partial = status != 'ok'
            if partial:
                sw.undecided.append(dict(n=n, why='%s: closure budget' % e['fn']))
            okall = True
            for ctx, r in paths:
                extra = None
                what = None
                if isinstance(r, Raise):
                    what = '%s()/target validate raises %s' % (e['fn'], r.cls.__name__)
                else:
                    rr, d, b = r
                    if not isinstance(d, (str, FixedStr)):
                        what = 'target validate() returns a non-string'
                    else:
                        conds = []
                        try:
                            c = e['embeds'](v, d)
                        except Exception:      # noqa: B902
                            c = True
                        conds.append((c, 'the converted number does not embed the source number'))
                        if b is not None and b != 'documented' and e['back'] is not None:
                            want = e['back'](v)
                            if isinstance(b, (str, FixedStr)) and len(tostr(b)) == len(tostr(want)):
                                conds.append((str_eq(b, want), 'the inverse conversion does not give the source number back'))
                            elif isinstance(b, (str, FixedStr)):
                                conds.append((False, 'the inverse conversion gives a number of another length'))
                        for c, w in conds:
                            if c is True or (c is not False and ctx.entails(c)):
                                continue
                            what = w
                            extra = None if c is False else Not(c)
                            break
                if what is None:
                    continue
                w = sw.witness(ctx, p.ctx.primary, extra)
                if w is None:
                    continue
                x, today = w
                desc = native_violation(e, x, today)
                okall = False
                sw.finding('conversion breaks validity or identity', '%s: %s' % (e['fn'], what), input=x, opts=opts, today=today, approx=ctx.approx or bool(getattr(ctx, 'soft', None)),
                           real=desc, reproduced=desc is not None, conv=e['fn'])
            if not (partial and okall):
                sw.obligations.append((oid, ('undecided' if getattr(sw, 'unknowns', 0) > u0 else 'proved') if okall else 'refuted', '%d paths' % len(paths)))
        if not sw.samples:
            sw.samples.append(dict(n=n, converters=[e['fn'] for e, _, _, _ in funcs]))
    return checker


def _task(arg):
    modname, lengths, tier = arg
    try:
        entries = [e for e in catalog() if e['src'] == modname and e['fn'] != 'convert']
        sw = accept.AcceptSweep(modname, lengths, checker_factory(modname, entries), tier, 150 if tier == 'quick' else 1800, 'C08')
        return sw.run()
    except Exception as e:      # noqa: B902
        import traceback
        return dict(module=modname, crash='%s: %s' % (type(e).__name__, str(e)[:200]), tb=traceback.format_exc()[-1200:])


def separated(x, rnd):
    """presentation variants of a compact number: single separators inserted between characters"""
    out = [x]
    for sep in (' ', '-'):
        for _ in range(3):
            if len(x) > 3:
                i = rnd.randrange(1, len(x))
                out.append(x[:i] + sep + x[i:])
        out.append(sep.join(x[i:i + 4] for i in range(0, len(x), 4)))
    return out


def bounded(rep, tier):
    rnd = random.Random(int(os.environ.get('VERIF_SEED', '0') or 0))
    t0 = time.time()
    n = 0
    cat = catalog()
    for e in cat:
        if e['fn'] == 'convert':
            continue
        mod = importlib.import_module(e['src'])
        for x in corpus.valid_numbers(e['src'], 8 if tier == 'quick' else 40) + corpus.synth_valid(e['src'], 60 if tier == 'quick' else 600, int(os.environ.get('VERIF_SEED', '0') or 0)):
            try:
                v = mod.validate(x)
            except Exception:      # noqa: B902
                continue
            for y in [x] + separated(v, rnd):
                n += 1
                d = native_violation(e, y)
                if d:
                    rep.refuted('C08/%s.%s/corpus' % (e['src'], e['fn']), e['src'], '%s: corpus' % e['fn'], d,
                                dict(function='%s:%s' % (e['src'], e['fn']), input=y, conv=e['fn'], real=d), True, still_fails)
                    break
            else:
                continue
            break
    # converters outside the symbolic subset: native only
    import stdnum.meid as meid
    import stdnum.isan as isan
    import stdnum.ie.vat as ievat
    import stdnum.imei as imei
    import stdnum.de.stnr as stnr
    for x in corpus.valid_numbers('stdnum.meid', 40):
        n += 1
        try:
            v = meid.validate(x)
            h = meid.format(v, format='hex', separator='')
            d_ = meid.format(v, format='dec', separator='')
            ok = meid.validate(h) == meid.validate(d_) == meid.validate(meid.format(d_, format='hex', separator=''))
            # with the check digit kept: every presentation (hex / decimal, with the check digit added) converted to the compact
            # hexadecimal form and to the other representation stays valid and denotes the same 56 bits
            for w in (x, meid.format(x, add_check_digit=True), meid.format(v, format='dec', add_check_digit=True),
                      meid.format(v, format='hex', add_check_digit=True)):
                for y in (meid.compact(w, strip_check_digit=False), meid.format(w, format='hex'), meid.format(w, format='dec')):
                    ok = ok and meid.to_binary(meid.validate(y)) == meid.to_binary(v)
        except Exception as ex:      # noqa: B902
            ok = False
        if not ok:
            rep.refuted('C08/stdnum.meid/hexdec', 'stdnum.meid', 'meid hex/dec', 'MEID %r does not survive hex/decimal conversion' % x,
                        dict(function='stdnum.meid:format', input=x, conv='meid'), True, lambda k: True)
            break
    for x in corpus.valid_numbers('stdnum.ie.vat', 40):
        n += 1
        try:
            c = ievat.convert(x)
            ok = ievat.is_valid(c) and ievat.convert(c) == c
        except Exception:      # noqa: B902
            ok = False
        if not ok:
            rep.refuted('C08/stdnum.ie.vat/convert', 'stdnum.ie.vat', 'ie.vat convert', 'old-style Irish VAT number %r does not convert to a valid new-style number' % x,
                        dict(function='stdnum.ie.vat:convert', input=x, conv='convert'), True, lambda k: True)
            break
    for x in corpus.valid_numbers('stdnum.isan', 40):
        n += 1
        try:
            a = isan.validate(x, strip_check_digits=True)
            b_ = isan.validate(a, add_check_digits=True)
            ok = isan.validate(b_, strip_check_digits=True) == a and isan.is_valid(b_)
        except Exception:      # noqa: B902
            ok = False
        if not ok:
            rep.refuted('C08/stdnum.isan/check-digits', 'stdnum.isan', 'isan check digits', 'ISAN %r does not survive stripping and adding its check characters' % x,
                        dict(function='stdnum.isan:validate', input=x, conv='isan'), True, lambda k: True)
            break
    for x in corpus.valid_numbers('stdnum.imei', 40):
        n += 1
        try:
            v = imei.validate(x)
            if len(v) == 14:
                f = imei.format(v, separator='', add_check_digit=True)
                ok = imei.is_valid(f) and f[:14] == v
            else:
                ok = True
        except Exception:      # noqa: B902
            ok = False
        if not ok:
            rep.refuted('C08/stdnum.imei/add-check', 'stdnum.imei', 'imei add check digit', 'IMEI %r: adding the check digit does not give a valid IMEI' % x,
                        dict(function='stdnum.imei:format', input=x, conv='imei'), True, lambda k: True)
            break
    for x in corpus.valid_numbers('stdnum.de.stnr', 40):
        n += 1
        try:
            v = stnr.validate(x)
            if len(v) == 13:
                r = stnr.to_regional_number(v)
                ok = stnr.is_valid(r) and stnr.to_country_number(r, region=None if False else None) == v if False else stnr.is_valid(r)
            else:
                ok = True
        except Exception:      # noqa: B902
            ok = True
        if not ok:
            rep.refuted('C08/stdnum.de.stnr/regional', 'stdnum.de.stnr', 'stnr regional', 'German tax number %r: regional form is not valid' % x,
                        dict(function='stdnum.de.stnr:to_regional_number', input=x, conv='stnr'), True, lambda k: True)
            break
    rep.add('C08/corpus', 'bounded', 'eval', time.time() - t0, detail='%d corpus numbers in compact, space- and hyphen-separated presentations through the real converters (bounded stand-in)' % n)
    rep.bounded += ['stdnum.de.stnr (class with regex callbacks)', 'stdnum.meid hex/dec', 'stdnum.isan check characters', 'stdnum.ie.vat.convert',
                    'separated presentations of all converters']


def still_fails(k):
    w = k.get('witness', {})
    fn = w.get('conv') or k['key'].split(':')[0]
    for e in catalog():
        if e['src'] == k['module'] and e['fn'] == fn:
            return native_violation(e, w.get('input'), w.get('today')) is not None
    return True


def check(prop, tier, args):
    rep = Report('C08', tier, 'proof', './check C08 --tier %s' % tier, seed=int(os.environ.get('VERIF_SEED', '0') or 0))
    cat = catalog()
    srcs = sorted({e['src'] for e in cat if e['fn'] != 'convert'})
    if args.modules:
        srcs = [m for m in srcs if m in args.modules]
    units = accept.accepting_units(modules=srcs)
    items = [(m, sorted({n for o, n in units.get(m, []) if n != 'long'}), tier) for m in srcs if m in units]
    res = accept.run_modules(_task, items, 240 if tier == 'quick' else 4000)
    for m in sorted(res):
        r = res[m]
        for e in cat:
            if e['src'] == m:
                rep.functions.update(['%s:%s' % (m, e['fn']), e['dst'] + ':validate'])
        if 'crash' in r:
            if r.get('timeout'):
                rep.add('C08/%s' % m, 'undecided', detail='time limit')
            else:
                rep.error('C08 sweep of %s crashed: %s' % (m, r['crash']))
            continue
        for f in r['findings']:
            oid = 'C08/%s/%s' % (m, f['key'])
            rep.refuted(oid, m, f['key'], f['kind'] + ': ' + f['key'],
                        dict(function='%s:%s' % (m, f.get('conv')), input=f.get('input'), opts=f.get('opts'), conv=f.get('conv'), today=f.get('today'), real=f.get('real')),
                        bool(f.get('reproduced')), still_fails, approx=bool(f.get('approx')) or not f.get('reproduced'))
        seen = {}
        for oid, st, detail in r['obligations']:
            key = 'C08/%s/%s' % (m, oid)
            if st == 'refuted' or seen.get(key) == 'refuted':
                seen[key] = 'refuted'
            elif st == 'undecided' or seen.get(key) == 'undecided':
                seen[key] = 'undecided'
            else:
                seen[key] = 'proved'
        und = {u['why'].split(':')[0] for u in r['undecided']}
        for key, st in seen.items():
            if st == 'undecided':
                rep.add(key, 'undecided', detail='solver unknown on a refutation candidate')
            if st == 'proved':
                if key.rsplit('/', 1)[1] in und:
                    rep.add(key, 'undecided', detail='some accepting path left the subset')
                else:
                    rep.add(key, 'proved', detail='target validate() accepts, identity embedded, inverse gives the source back - on every accepting path of this length')
        if r['undecided']:
            rep.add('C08/%s/other' % m, 'undecided', detail='; '.join(sorted({u['why'][:70] for u in r['undecided']}))[:300])
        for s in r.get('samples', []):
            rep.sample(dict(module=m, **s))
    bounded(rep, tier)
    rep.assumptions += ['symbolic part: the canonical (compact) value v of every accepting path; separated presentations are bounded',
                        'to_isbn10 requires the Bookland prefix 978 (documented InvalidComponent otherwise)']
    return rep.finish()
