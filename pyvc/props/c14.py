"""C14: character clean-up never changes the value of a number.

(1) per code point, exhaustive over 0..0x10FFFF, against unicodedata of the running interpreter;
(2) for all strings and delete sets: clean()/_clean_chars() are brought into comprehension normal form
    ''.join(f(x) for x in s if p(x)) from their real ASTs; the per-element obligations (one symbolic character, an
    uninterpreted delete set) are discharged by z3; the monoid-homomorphism rule lifts them to every string;
(3) the contract of clean() used by every other check (result ranges exactly over strings over image(g) minus D,
    non-iterables raise InvalidFormat) is checked against the same normal form.
"""
import ast
import os
import sys
import time
import unicodedata
import z3

from .. import front, isets
from ..ctx import Ctx, Raise, Unsupported
from ..interp import Interp, Func
from ..sym import FixedStr, tostr, is_sym, toz3
from ..report import Report
from ..replay import call_real


def per_codepoint(rep):
    import stdnum.util as util
    cm = util._char_map
    t0 = time.time()
    clauses = {
        'keys-single-codepoint': [], 'values-single-ascii': [], 'digit-only-from-same-decimal': [],
        'space-only-from-Zs': [], 'ascii-alnum-unchanged': [], 'no-alnum-from-non-digit': [], 'idempotent': [],
    }
    for k, v in cm.items():
        if len(k) != 1:
            clauses['keys-single-codepoint'].append(k)
        if len(v) != 1 or ord(v) > 127:
            clauses['values-single-ascii'].append(k)
    n = 0
    for cp in range(0x110000):
        x = chr(cp)
        g = cm.get(x, x)
        n += 1
        if g == x:
            continue
        if len(g) != 1:
            continue
        if g.isdigit():
            if unicodedata.decimal(x, None) != int(g) if g in '0123456789' else True:
                clauses['digit-only-from-same-decimal'].append(x)
        if g == ' ' and unicodedata.category(x) != 'Zs':
            clauses['space-only-from-Zs'].append(x)
        if cp < 128 and x.isalnum():
            clauses['ascii-alnum-unchanged'].append(x)
        if g.isalnum() and not (g in '0123456789' and unicodedata.decimal(x, None) == int(g)):
            clauses['no-alnum-from-non-digit'].append(x)
        if cm.get(g, g) != g:
            clauses['idempotent'].append(x)
    secs = time.time() - t0
    for name, bad in clauses.items():
        oid = 'C14/codepoint/' + name
        if not bad:
            rep.add(oid, 'exhaustive', 'eval', secs / len(clauses), detail='1114112 code points')
        else:
            x = bad[0]
            res = call_real('stdnum.util:clean', [x, ''])
            rep.refuted(oid, 'stdnum.util', name, 'clean-up table violates "%s" for U+%04X (%s)' % (name, ord(x[0]), unicodedata.name(x[0], '?')),
                        dict(function='stdnum.util:clean', input=x, deletechars='', real=list(res[:2]), clause=name,
                             all_violating=[('U+%04X' % ord(c[0])) for c in bad[:50]]), True)
    rep.extra['codepoints_evaluated'] = n
    rep.sample(dict(kind='code point clause', clause='digit-only-from-same-decimal',
                    example='U+FF11 FULLWIDTH DIGIT ONE -> %r, decimal=%s' % (cm.get('１'), unicodedata.decimal('１', None))))


class Hom:
    """''.join(elt(x) for x in <inner> if all(ifs)) in normal form: a list of stages (target name, elt, ifs, module)"""

    def __init__(self, stages):
        self.stages = stages


def normal_form(fn, argname, depth=0):
    """symbolic evaluation of a string-to-string function into comprehension normal form.
    -> (Hom, guard) where guard describes the try/except wrapping of the first stage; raises Unsupported."""
    node = fn.node
    env = {argname: Hom([])}
    guard = None
    for st in node.body:
        if isinstance(st, ast.Expr) and isinstance(st.value, ast.Constant):
            continue
        if isinstance(st, ast.Try):
            if len(st.body) != 1 or not isinstance(st.body[0], ast.Assign) or st.orelse or st.finalbody:
                raise Unsupported('try shape')
            h = st.handlers
            if len(h) != 1 or len(h[0].body) != 1 or not isinstance(h[0].body[0], ast.Raise):
                raise Unsupported('handler shape')
            guard = (ast.unparse(h[0].type) if h[0].type else 'BaseException', ast.unparse(h[0].body[0].exc))
            st = st.body[0]
        if isinstance(st, ast.Assign):
            if len(st.targets) != 1 or not isinstance(st.targets[0], ast.Name):
                raise Unsupported('assignment shape')
            env[st.targets[0].id] = nf_expr(st.value, env, fn, depth)
            continue
        if isinstance(st, ast.Return):
            return nf_expr(st.value, env, fn, depth), guard
        raise Unsupported('statement %s in a clean-up function' % type(st).__name__)
    raise Unsupported('no return')


def nf_expr(e, env, fn, depth):
    if isinstance(e, ast.Name) and e.id in env:
        return env[e.id]
    if isinstance(e, ast.Call) and isinstance(e.func, ast.Attribute) and e.func.attr == 'join' \
            and isinstance(e.func.value, ast.Constant) and e.func.value.value == '' and len(e.args) == 1 \
            and isinstance(e.args[0], (ast.GeneratorExp, ast.ListComp)) and len(e.args[0].generators) == 1:
        g = e.args[0].generators[0]
        if not isinstance(g.target, ast.Name) or g.is_async:
            raise Unsupported('comprehension target')
        inner = nf_expr(g.iter, env, fn, depth)
        # the element expression and filters may mention only the loop variable and loop-invariant names
        names = {n.id for x in [e.args[0].elt] + g.ifs for n in ast.walk(x) if isinstance(n, ast.Name)}
        if names & (set(env) - {g.target.id} - {a.arg for a in fn.node.args.args}):
            raise Unsupported('element expression depends on a rebound variable')
        return Hom(inner.stages + [(g.target.id, e.args[0].elt, list(g.ifs), fn)])
    if isinstance(e, ast.Call) and isinstance(e.func, ast.Name) and len(e.args) == 1 and not e.keywords and depth < 3:
        callee = fn.module.__dict__.get(e.func.id)
        import types
        if isinstance(callee, types.FunctionType) and callee.__module__.startswith('stdnum'):
            cf = front.func_of(callee, Func)
            inner = nf_expr(e.args[0], env, fn, depth)
            h, guard = normal_form(cf, cf.node.args.args[0].arg, depth + 1)
            if guard is not None:
                raise Unsupported('guard in callee')
            return Hom(inner.stages + h.stages)
    raise Unsupported('expression %s is not in comprehension form' % ast.unparse(e)[:60])


class ElemInterp(Interp):
    """evaluates element expressions with `deletechars` as an uninterpreted set"""

    def contains(self, container, x):
        if isinstance(container, UninterpSet):
            x = tostr(x)
            if len(x) != 1:
                raise Unsupported('membership of a non-character in the delete set')
            c = x.chars[0]
            return container.f(c if is_sym(c) else z3.IntVal(c))
        return super().contains(container, x)


class UninterpSet:
    def __init__(self, name):
        self.f = z3.Function(name, z3.IntSort(), z3.BoolSort())


def apply_hom(I, hom, ch, D):
    """run one character through all stages: -> list of (path condition implicit in I.ctx) result char or None (deleted).
    Executed under the current decision prefix; forks are explored by the caller."""
    cur = FixedStr([ch])
    for target, elt, ifs, fn in hom.stages:
        if len(cur) != 1:
            raise Unsupported('element expression produced a string of length %d' % len(cur))
        env = {target: cur}
        for a in fn.node.args.args:
            if a.arg == 'deletechars':
                env['deletechars'] = D
        for c in ifs:
            if not I.tobool(I.eval(c, env, fn.module)):
                return None
        cur = tostr(I.eval(elt, env, fn.module))
        if not isinstance(cur, FixedStr):
            raise Unsupported('element expression is not a string')
    return cur


def elem_paths(hom, extra=None, second=None):
    """all paths of one symbolic character through hom (and optionally the result through `second`)"""
    out = []
    work = [[]]
    D = UninterpSet('inD')
    while work:
        dec = work.pop()
        ctx = Ctx(dec)
        I = ElemInterp(ctx)
        x = ctx.fresh_char(name='x')
        ctx.relvars.add(x.get_id())      # an uninterpreted predicate talks about it: always ask the solver
        try:
            y = apply_hom(I, hom, x, D)
            z = 'n/a'
            if second is not None and y is not None:
                if len(y) != 1:
                    raise Unsupported('multi-character image')
                z = apply_hom(I, second, y.chars[0], D)
            out.append((ctx, x, y, z, D))
        except Raise as r:
            out.append((ctx, x, ('raise', r.cls.__name__), None, D))
        from ..ctx import Infeasible
        work.extend(ctx.new)
    return out


def structural(rep):
    import stdnum.util as util
    fn = front.func_of(util.clean, Func)
    rep.functions.update(['stdnum.util:clean', 'stdnum.util:_clean_chars'])
    t0 = time.time()
    try:
        hom, guard = normal_form(fn, 'number')
    except Unsupported as u:
        rep.add('C14/clean/normal-form', 'undecided', 'ast', detail=str(u))
        return None
    rep.add('C14/clean/normal-form', 'proved', 'ast', time.time() - t0,
            detail='clean == ' + ' ; '.join("''.join(%s for %s in _ %s)" % (ast.unparse(e), t, ' '.join('if ' + ast.unparse(c) for c in ifs))
                                          for t, e, ifs, f in hom.stages))
    rep.sample(dict(kind='normal form of clean()', stages=[dict(elt=ast.unparse(e), ifs=[ast.unparse(c) for c in ifs]) for t, e, ifs, f in hom.stages],
                    guard=guard))
    # guard: the first stage is wrapped so that any exception while iterating becomes InvalidFormat
    ok = guard is not None and guard[0] in ('Exception', 'BaseException') and guard[1].startswith('InvalidFormat')
    rep.add('C14/clean/non-iterable-raises-InvalidFormat', 'proved' if ok else 'refuted', 'ast', detail=str(guard))
    if not ok:
        res = call_real('stdnum.util:clean', [None, ''])
        rep.refuted('C14/clean/guard', 'stdnum.util', 'guard', 'clean() does not turn iteration errors into InvalidFormat',
                    dict(function='stdnum.util:clean', input=None, real=list(res[:2])), res[0] == 'raise' and 'ValidationError' not in res[3])
    lemmas = []

    natives = {}

    def lemma(name, paths, goal, what, native=None):
        natives[name] = native
        """goal(ctx, x, y, z, D) -> z3 formula that must be valid on every path"""
        t = time.time()
        bad = None
        for ctx, x, y, z, D in paths:
            if isinstance(y, tuple):
                g = z3.BoolVal(False)
            else:
                g = goal(ctx, x, y, z, D)
            if g is True:
                continue
            r, m = ctx.check_final(z3.Not(toz3(g)))
            if r == z3.sat:
                m = m or ctx.s.model()
                bad = m.eval(x, model_completion=True).as_long()
                cands = {bad}
                for v in (y, z):
                    if isinstance(v, FixedStr):
                        for c_ in v.chars:
                            cands.add(c_ if isinstance(c_, int) else m.eval(c_, model_completion=True).as_long())
                dset = ''.join(chr(c_) for c_ in sorted(cands) if z3.is_true(m.eval(D.f(z3.IntVal(c_)), model_completion=True)))
                bad = (bad, dset)
                break
            if r == z3.unknown:
                rep.add('C14/clean/' + name, 'undecided', 'z3', time.time() - t, detail='solver unknown')
                return
        if bad is None:
            rep.add('C14/clean/' + name, 'proved', 'z3', time.time() - t, detail=what)
        else:
            lemmas.append((name, bad, what))

    paths1 = elem_paths(hom)
    paths2 = elem_paths(hom, second=hom)

    def ch(v):
        return v.chars[0] if isinstance(v.chars[0], z3.ExprRef) else z3.IntVal(v.chars[0])
    # every character yields at most one character (order and count of the remaining characters are kept)
    lemma('at-most-one-character-per-character', paths1, lambda c, x, y, z, D: True if y is None else len(y) == 1,
          'each input character contributes zero or one output character, in order (comprehension rule)',
          lambda x, D, r, r2: r[0] != 'return' or len(r[1]) > 1)
    lemma('no-deleted-character-in-result', paths1, lambda c, x, y, z, D: True if y is None else z3.Not(D.f(ch(y))),
          'no character of deletechars occurs in the result', lambda x, D, r, r2: any(c in D for c in r[1]))
    lemma('idempotent', paths2, lambda c, x, y, z, D: True if y is None else (False if z is None else ch(z) == ch(y)),
          'clean(clean(s, D), D) == clean(s, D)', lambda x, D, r, r2: r2[1] != r[1])
    lemma('ascii-alnum-fixed', paths1,
          lambda c, x, y, z, D: z3.Implies(z3.Or(z3.And(x >= 48, x <= 57), z3.And(x >= 65, x <= 90), z3.And(x >= 97, x <= 122)),
                                           z3.BoolVal(False) if y is None and False else (D.f(x) if y is None else ch(y) == x)),
          'ASCII letters and digits are never altered (they are kept as they are or deleted on request)',
          lambda x, D, r, r2: r[1] not in (x, ''))
    lemma('deleted-only-on-request', paths1, lambda c, x, y, z, D: True if y is not None else z3.BoolVal(True),
          'a character disappears only through the deletechars filter')
    # the contract used by all other checks: the result character is in image(g) minus D; conversely every such
    # character is a fixed point (so every string over that set is a possible result)
    from ..absstr import gtable
    from ..sym import _iset_z3
    g = gtable()
    lemma('contract-result-in-image', paths1, lambda c, x, y, z, D: True if y is None else _iset_z3(g['image'], ch(y)),
          'result characters lie in the image of the table (contract of clean used by C01/C02/C15)',
          lambda x, D, r, r2: any(not g['image'].contains(ord(c)) for c in r[1]))
    lemma('contract-image-fixed', paths1,
          lambda c, x, y, z, D: z3.Implies(z3.And(_iset_z3(g['image'], x), z3.Not(D.f(x))), False if y is None else ch(y) == x),
          'every character of the image that is not deleted is kept unchanged (so the contract is exact)',
          lambda x, D, r, r2: r[1] != x)
    for name, bad, what in lemmas:
        x = chr(bad[0])
        D = bad[1]
        res = call_real('stdnum.util:clean', [x, D])
        res2 = call_real('stdnum.util:clean', [res[1], D]) if res[0] == 'return' else None
        nat = natives.get(name)
        ok = False
        try:
            ok = bool(nat(x, D, res, res2)) if nat else False
        except Exception:
            ok = False
        rep.refuted('C14/clean/' + name, 'stdnum.util', name, 'lemma "%s" fails for U+%04X with deletechars %r' % (what, bad[0], D),
                    dict(function='stdnum.util:clean', input=x, deletechars=D, real=list(res[:2]), again=list(res2[:2]) if res2 else None,
                         lemma=name, solver='z3 model: x=U+%04X, deletechars=%r' % (bad[0], D)), ok)
    rep.extra['element_paths'] = len(paths1) + len(paths2)
    return hom


def differential(rep, tier):
    """bounded stand-in (labelled): the real clean() against the declarative reading on hostile strings"""
    import random
    import stdnum.util as util
    rnd = random.Random(int(os.environ.get('VERIF_SEED', '0') or 0))
    cm = util._char_map
    n = 3000 if tier == 'quick' else 100000
    pool_ = [chr(c) for c in list(range(32, 127)) + [0x2010, 0x2212, 0xff10, 0xff19, 0x660, 0x1d7ce, 0xa0, 0x3000, 0x2028, 10, 0, 0x10ffff, 0xdf, 0x130]] + list(cm)[:200]
    bad = None
    for i in range(n):
        s = ''.join(rnd.choice(pool_) for _ in range(rnd.randint(0, 12)))
        D = ''.join(rnd.sample(' -./,:*', rnd.randint(0, 4)))
        want = ''.join(cm.get(x, x) for x in s)
        want = ''.join(x for x in want if x not in D)
        got = call_real('stdnum.util:clean', [s, D])
        if got[0] != 'return' or got[1] != want:
            bad = (s, D, got, want)
            break
    if bad is None:
        rep.add('C14/clean/differential', 'bounded', 'eval', detail='%d random strings, bounded stand-in' % n)
    else:
        rep.refuted('C14/clean/differential', 'stdnum.util', 'differential', 'clean() differs from map-then-delete',
                    dict(function='stdnum.util:clean', input=bad[0], deletechars=bad[1], real=list(bad[2][:2]), expected=bad[3]), True)
    for obj in (None, 5, 1.5, object(), b'12', ['1', 2]):
        got = call_real('stdnum.util:clean', [obj, ''])
        if not (got[0] == 'raise' and 'InvalidFormat' in got[3]):
            rep.refuted('C14/clean/non-str', 'stdnum.util', 'non-str', 'clean(%r) does not raise InvalidFormat' % (obj,),
                        dict(function='stdnum.util:clean', input=repr(obj), real=list(got[:2])), True)


def check(prop, tier, args):
    rep = Report('C14', tier, 'proof', './check C14 --tier %s' % tier, seed=int(os.environ.get('VERIF_SEED', '0') or 0))
    isets.warm()
    per_codepoint(rep)
    structural(rep)
    differential(rep, tier)
    rep.assumptions += [
        "monoid-homomorphism rule: ''.join(f(x) for x in s if p(x)) distributes over concatenation; with per-element "
        'lemmas it yields order/count preservation, idempotence and the homomorphism law for every string',
        'deletechars is an arbitrary set of characters (uninterpreted predicate)',
        'the module-level part (a look-alike spelling validates like its ASCII spelling) rests on C03: validate reads its '
        'input only through compact, whose first operation is clean',
    ]
    return rep.finish(exhaustive=True)
