"""C18: the online check application answers every query with 200 and escaped output.

Contracts on the functions of online_check/stdnum.wsgi, decided on their real ASTs:
 * status: every start_response call passes the literal '200 OK'; the result list is exactly the comprehension over
   get_number_modules() filtered by is_valid(number);
 * escaping: taint obligation - every data-dependent operand interpolated into HTML is the result of html.escape;
 * typing: html.escape(conversion) requires a str, json.dumps a serialisable value: a return-kind contract is inferred
   for every to_*/get_* function the application can call; a kind outside {str, date} breaks HTML mode;
 * availability: compact()/format()/is_valid() are total on valid numbers (results of C01 / C04).
Refutations are replayed through the real application(); a native run over the corpus is the bounded stand-in.
"""
import ast
import html
import importlib
import inspect
import json
import os
import sys
import time
import types

from .. import front, corpus
from ..interp import Func
from ..report import Report

STR, INT, BOOL, DATE, DICT, LIST, TUPLE, NONE, UNK = 'str', 'int', 'bool', 'date', 'dict', 'list', 'tuple', 'None', 'unknown'
STR_METHODS = {'strip', 'lstrip', 'rstrip', 'upper', 'lower', 'replace', 'zfill', 'format', 'join', 'group', 'rjust', 'ljust', 'title',
               'strftime', 'isoformat', 'decode', 'capitalize'}
INT_METHODS = {'index', 'find', 'count', 'bit_length', 'toordinal'}
BOOL_METHODS = {'startswith', 'endswith', 'isdigit', 'isalpha', 'isalnum', 'isupper', 'islower', 'isspace'}


class Kinds:
    def __init__(self):
        self.memo = {}

    def of_function(self, pyfunc, depth=0):
        key = (pyfunc.__module__, pyfunc.__qualname__)
        if key in self.memo:
            return self.memo[key]
        self.memo[key] = {UNK}
        if depth > 6:
            return {UNK}
        try:
            fn = front.func_of(pyfunc, Func)
        except Exception:      # noqa: B902
            return {UNK}
        env = {}
        for a in fn.node.args.args:
            env[a.arg] = {STR} if a.arg == 'number' else {UNK}
        # flow-insensitive: two passes over the assignments
        for _ in range(2):
            for n in ast.walk(fn.node):
                if isinstance(n, ast.Assign):
                    k = self.expr(n.value, env, fn, depth)
                    for t in n.targets:
                        if isinstance(t, ast.Name):
                            env[t.id] = env.get(t.id, set()) - {UNK} | k if t.id in env and env[t.id] != {UNK} else set(k)
                        elif isinstance(t, ast.Tuple):
                            for e in t.elts:
                                if isinstance(e, ast.Name):
                                    env[e.id] = {UNK}
                elif isinstance(n, (ast.For, ast.comprehension)):
                    for e in ast.walk(n.target):
                        if isinstance(e, ast.Name):
                            env.setdefault(e.id, {UNK})
        out = set()
        has_return = False
        for n in ast.walk(fn.node):
            if isinstance(n, ast.Return):
                has_return = True
                out |= self.expr(n.value, env, fn, depth) if n.value is not None else {NONE}
            if isinstance(n, (ast.Yield, ast.YieldFrom)):
                out |= {LIST}
        # falling off the end
        last = fn.node.body[-1]
        if not isinstance(last, (ast.Return, ast.Raise)):
            def ends(stmts):
                if not stmts:
                    return False
                l = stmts[-1]
                if isinstance(l, (ast.Return, ast.Raise)):
                    return True
                if isinstance(l, ast.If):
                    return ends(l.body) and ends(l.orelse)
                if isinstance(l, ast.Try):
                    return ends(l.body) and all(ends(h.body) for h in l.handlers)
                return False
            if not ends(fn.node.body):
                out |= {NONE}
        self.memo[key] = out or {NONE}
        return self.memo[key]

    def expr(self, e, env, fn, depth):
        if e is None:
            return {NONE}
        if isinstance(e, ast.Constant):
            v = e.value
            return {NONE if v is None else BOOL if isinstance(v, bool) else INT if isinstance(v, int) else STR if isinstance(v, str) else UNK}
        if isinstance(e, ast.JoinedStr):
            return {STR}
        if isinstance(e, ast.Name):
            return set(env.get(e.id, {UNK}))
        if isinstance(e, ast.Dict) or isinstance(e, ast.DictComp):
            return {DICT}
        if isinstance(e, (ast.List, ast.ListComp)):
            return {LIST}
        if isinstance(e, ast.Tuple):
            return {TUPLE}
        if isinstance(e, (ast.Compare,)) or (isinstance(e, ast.UnaryOp) and isinstance(e.op, ast.Not)):
            return {BOOL}
        if isinstance(e, ast.BoolOp):
            out = set()
            for v in e.values:
                out |= self.expr(v, env, fn, depth)
            return out
        if isinstance(e, ast.IfExp):
            return self.expr(e.body, env, fn, depth) | self.expr(e.orelse, env, fn, depth)
        if isinstance(e, ast.BinOp):
            l, r = self.expr(e.left, env, fn, depth), self.expr(e.right, env, fn, depth)
            if isinstance(e.op, ast.Mod) and l == {STR}:
                return {STR}
            if isinstance(e.op, ast.Add) and (l == {STR} or r == {STR}):
                return {STR}
            if isinstance(e.op, ast.Mult) and (l == {STR} or r == {STR}):
                return {STR}
            if l <= {INT, BOOL} and r <= {INT, BOOL}:
                return {INT}
            if UNK in l or UNK in r:
                return {UNK}
            return {INT}
        if isinstance(e, ast.UnaryOp):
            return {INT}
        if isinstance(e, ast.Subscript):
            base = self.expr(e.value, env, fn, depth)
            if base == {STR}:
                return {STR}
            return {UNK}
        if isinstance(e, ast.Call):
            f = e.func
            if isinstance(f, ast.Attribute):
                if f.attr in STR_METHODS:
                    return {STR}
                if f.attr in INT_METHODS:
                    return {INT}
                if f.attr in BOOL_METHODS:
                    return {BOOL}
                if f.attr in ('split', 'rsplit', 'findall', 'items', 'keys', 'values'):
                    return {LIST}
                if f.attr in ('date', 'today'):
                    return {DATE}
                if f.attr in ('get',):
                    return {UNK}
            from .c03 import resolve_callee
            callee = resolve_callee(fn, f)
            if callee is int or callee is len or callee is sum or callee is ord:
                return {INT}
            if callee is str or callee is chr:
                return {STR}
            if callee is bool or callee is all or callee is any or callee is isinstance:
                return {BOOL}
            if callee is dict:
                return {DICT}
            if callee in (list, sorted, set):
                return {LIST}
            if callee is tuple:
                return {TUPLE}
            import datetime
            if callee is datetime.date or callee is datetime.datetime:
                return {DATE}
            if isinstance(callee, types.FunctionType) and (callee.__module__ or '').startswith('stdnum'):
                return set(self.of_function(callee, depth + 1))
            return {UNK}
        return {UNK}


def app_conversions(wsgi):
    """(module, function name, function) for every conversion the application can call - by the application's own
    selection rule, evaluated on the real modules"""
    out = []
    for mod in front.number_modules():
        for name, func in inspect.getmembers(mod, inspect.isfunction):
            if name.startswith('to_') or name.startswith('get_'):
                sig = inspect.signature(func)
                args = [p.name for p in sig.parameters.values() if p.default == p.empty]
                if args == ['number'] and not name.endswith('binary'):
                    out.append((mod, name, func))
    return out


def call_app(wsgi, query, ajax=False):
    """-> (status, headers, body text) or ('EXC', exception class name, message)"""
    status = {}

    def start_response(s, h):
        status['s'], status['h'] = s, h
    environ = dict(DOCUMENT_ROOT=os.path.dirname(front.WSGI_PATH), SCRIPT_NAME='/stdnum.wsgi', QUERY_STRING=query)
    if ajax:
        environ['HTTP_X_REQUESTED_WITH'] = 'XMLHttpRequest'
    try:
        body = b''.join(wsgi.application(environ, start_response)).decode('utf-8')
    except Exception as e:      # noqa: B902
        # the innermost frame inside the repository names the call site of the failure
        import traceback
        site = ''
        for fr in traceback.extract_tb(e.__traceback__):
            fn = fr.filename.replace(os.sep, '/')
            if '/stdnum/' in fn or fn.endswith('stdnum.wsgi'):
                site = '%s:%s' % (fn.split('/stdnum/')[-1] if '/stdnum/' in fn else 'stdnum.wsgi', fr.name)
        return ('EXC', type(e).__name__, str(e)[:200], site)
    return (status.get('s'), status.get('h'), body)


def taint_check(fn):
    """every data-dependent operand that reaches the returned HTML of format() is wrapped in html.escape
    -> list of offending source fragments"""
    clean = set()
    bad = []
    params = {a.arg for a in fn.node.args.args}

    def is_escape(e):
        return isinstance(e, ast.Call) and isinstance(e.func, ast.Attribute) and e.func.attr == 'escape' and \
            isinstance(e.func.value, ast.Name) and e.func.value.id == 'html'

    def is_clean(e):
        if isinstance(e, ast.Constant):
            return True
        if is_escape(e):
            return True
        if isinstance(e, ast.Name):
            return e.id in clean
        if isinstance(e, ast.BinOp) and isinstance(e.op, (ast.Mod, ast.Add)):
            return is_clean(e.left) and is_clean(e.right)
        if isinstance(e, ast.Tuple):
            return all(is_clean(x) for x in e.elts)
        if isinstance(e, ast.Call) and isinstance(e.func, ast.Attribute):
            # str methods / re.sub with literal patterns on clean text keep it clean
            if e.func.attr in ('replace', 'strip', 'join') and is_clean(e.func.value) and all(is_clean(a) for a in e.args):
                return True
            if e.func.attr == 'sub' and isinstance(e.func.value, ast.Name) and e.func.value.id == 're' and len(e.args) >= 3:
                return isinstance(e.args[0], ast.Constant) and isinstance(e.args[1], ast.Constant) and is_clean(e.args[2])
        if isinstance(e, ast.GeneratorExp):
            return is_clean(e.elt)
        return False
    for s in ast.walk(fn.node):
        if isinstance(s, ast.Assign) and len(s.targets) == 1 and isinstance(s.targets[0], ast.Name):
            if is_clean(s.value):
                clean.add(s.targets[0].id)
            else:
                clean.discard(s.targets[0].id)
                if s.targets[0].id == 'description':
                    bad.append(ast.unparse(s)[:100])
        if isinstance(s, ast.AugAssign) and isinstance(s.target, ast.Name):
            if not is_clean(s.value):
                bad.append(ast.unparse(s)[:100])
        if isinstance(s, ast.Return) and s.value is not None and not is_clean(s.value):
            bad.append(ast.unparse(s)[:100])
    return bad


def check(prop, tier, args):
    rep = Report('C18', tier, 'other', './check C18 --tier %s' % tier, seed=int(os.environ.get('VERIF_SEED', '0') or 0))
    wsgi = front.load_wsgi()
    t0 = time.time()
    tree = front.module_ast(wsgi)
    rep.functions.update(['stdnum.wsgi:application', 'stdnum.wsgi:format', 'stdnum.wsgi:info', 'stdnum.wsgi:get_conversions'])
    app = front.func_of(wsgi.application, Func)
    # -- status literal
    calls = [n for n in ast.walk(app.node) if isinstance(n, ast.Call) and isinstance(n.func, ast.Name) and n.func.id == 'start_response']
    ok = bool(calls) and all(isinstance(c.args[0], ast.Constant) and c.args[0].value == '200 OK' for c in calls)
    rep.add('C18/application/status-200', 'proved' if ok else 'refuted', 'ast', detail='%d start_response calls, all with the literal 200 OK' % len(calls))
    if not ok:
        r = call_app(wsgi, 'number=1')
        rep.refuted('C18/application/status-200', 'online_check', 'status', 'a response does not use status 200 OK', dict(query='number=1', real=list(r[:2])), r[0] != '200 OK')
    raises = [n for n in ast.walk(app.node) if isinstance(n, ast.Raise)]
    rep.add('C18/application/no-raise-statement', 'proved' if not raises else 'refuted', 'ast')
    # -- the result list
    want = "[info(module, number) for module in get_number_modules() if module.is_valid(number)]"
    comps = [ast.unparse(n) for n in ast.walk(app.node) if isinstance(n, ast.ListComp)]
    okc = want in comps
    rep.add('C18/application/results-are-the-valid-modules', 'proved' if okc else 'undecided', 'ast', detail=comps[0][:120] if comps else 'no comprehension')
    # -- escaping
    fmt = front.func_of(wsgi.format, Func)
    bad = taint_check(fmt)
    if not bad:
        rep.add('C18/format/escaping', 'proved', 'ast', detail='every data-dependent operand of the HTML snippet passes through html.escape')
    else:
        q = 'number=' + '%3Cb%3E'
        payload = '<script>x</script>'
        r = call_app(wsgi, 'number=978-0-471-11709-4')
        rep.refuted('C18/format/escaping', 'online_check', 'escaping', 'format() interpolates unescaped data: %s' % bad[0],
                    dict(query='number=978-0-471-11709-4', fragments=bad, real=list(r[:1])), False)
    # the page: value is html.escape(number, True)
    ret = [n for n in ast.walk(app.node) if isinstance(n, ast.Return)]
    page_ok = any('value=html.escape(number, True)' in ast.unparse(r_) for r_ in ret)
    rep.add('C18/application/value-escaped', 'proved' if page_ok else 'refuted', 'ast', detail='template value is html.escape(number, True)')
    if not page_ok:
        r = call_app(wsgi, 'number=%22%3E%3Cscript%3E')
        rep.refuted('C18/application/value-escaped', 'online_check', 'value-escaped', 'the submitted text is not escaped with quote=True',
                    dict(query='number=%22%3E%3Cscript%3E', real=[r[0], r[2][:300] if len(r) > 2 and isinstance(r[2], str) else r[1]]),
                    len(r) > 2 and isinstance(r[2], str) and '"><script>' in r[2])
    # -- the conversions: every call of a library getter / converter sits under a handler for Exception (the getters are not
    #    total on valid numbers, see the C12 findings; the application relies on this handler)
    gc = front.func_of(wsgi.get_conversions, Func)
    unguarded = []

    def walk_guard(node, guarded):
        if isinstance(node, ast.Try):
            g = guarded or any(h.type is None or (isinstance(h.type, ast.Name) and h.type.id in ('Exception', 'BaseException')) or
                               (isinstance(h.type, ast.Tuple) and any(isinstance(e_, ast.Name) and e_.id in ('Exception', 'BaseException') for e_ in h.type.elts))
                               for h in node.handlers)
            for ch in node.body:
                walk_guard(ch, g)
            for ch in node.handlers + node.orelse + node.finalbody:
                walk_guard(ch, guarded)
            return
        if isinstance(node, ast.Call) and isinstance(node.func, ast.Name) and node.func.id == 'func' and not guarded:
            unguarded.append(ast.unparse(node))
        for ch in ast.iter_child_nodes(node):
            walk_guard(ch, guarded)
    walk_guard(gc.node, False)
    if not unguarded:
        rep.add('C18/get_conversions/guarded', 'proved', 'ast', detail='every func(number) call is under an except Exception handler')
    else:
        wit = None
        from ..report import load_known
        import urllib.parse as _up
        cands = [(k_.get('witness') or {}).get('input') for k_ in load_known() if k_['property'] == 'C12']
        for x_ in [c_ for c_ in cands if isinstance(c_, str)]:
            r = call_app(wsgi, 'number=' + _up.quote(x_))
            if r[0] == 'EXC':
                wit = ('number=' + _up.quote(x_), r)
                break
        rep.refuted('C18/get_conversions/guarded', 'online_check', 'conversions-unguarded',
                    'a getter call is not under a handler for Exception: %s' % unguarded[0],
                    dict(query=wit[0] if wit else None, real=[str(x)[:200] for x in wit[1]] if wit else None, fragments=unguarded), bool(wit))
    # template keys
    tpl = open(os.path.join(os.path.dirname(front.WSGI_PATH), 'template.html'), encoding='utf-8').read()
    try:
        tpl % dict(value='', results='')
        rep.add('C18/template/keys', 'proved', 'eval', detail='template interpolates only value and results')
    except Exception as e:      # noqa: B902
        rep.add('C18/template/keys', 'refuted', 'eval', detail=str(e))
        rep.refuted('C18/template/keys', 'online_check', 'template', 'template needs other keys: %s' % e, dict(query=''), True)
    # -- typing of conversions
    K = Kinds()
    convs = app_conversions(wsgi)
    nbad = 0
    # how does format() hand a conversion to html.escape?  html.escape(x) needs x: str; html.escape(str(x)) takes anything
    needs_str = False
    for n_ in ast.walk(fmt.node):
        if isinstance(n_, ast.Call) and isinstance(n_.func, ast.Attribute) and n_.func.attr == 'escape' and n_.args:
            a0 = n_.args[0]
            if any(isinstance(x, ast.Name) and x.id == 'conversion' for x in ast.walk(a0)):
                if not (isinstance(a0, ast.Call) and isinstance(a0.func, ast.Name) and a0.func.id == 'str'):
                    needs_str = True
    rep.extra['html_escape_needs_str_conversion'] = needs_str
    for mod, name, func in convs:
        if not needs_str:
            rep.add('C18/conversion-is-str/%s.%s' % (mod.__name__, name), 'proved', 'ast', detail='format() applies str() before html.escape: any value is accepted')
            rep.functions.add('%s:%s' % (mod.__name__, name))
            continue
        kinds = K.of_function(func)
        oid = 'C18/conversion-is-str/%s.%s' % (mod.__name__, name)
        rep.functions.add('%s:%s' % (mod.__name__, name))
        badk = kinds - {STR, DATE, UNK}
        if not badk and UNK not in kinds:
            rep.add(oid, 'proved', 'ast', detail='returns %s' % sorted(kinds))
            continue
        # witness: a valid number of the module for which the getter returns such a value
        wit = None
        for x in corpus.valid_numbers(mod.__name__, 40):
            try:
                v = func(x)
            except Exception:      # noqa: B902
                continue
            import datetime
            if not isinstance(v, (str, datetime.date)) and v != x:
                wit = x
                break
        if wit is None:
            rep.add(oid, 'undecided', 'ast', detail=('may return %s but no corpus number shows it' % sorted(badk)) if badk else
                    'return kind not inferred (%s); all corpus values are strings: bounded' % sorted(kinds))
            continue
        if not badk:
            badk = {type(func(wit)).__name__}
        import urllib.parse
        q = 'number=' + urllib.parse.quote(wit)
        r = call_app(wsgi, q)
        nbad += 1
        rep.refuted(oid, mod.__name__, 'conversion %s returns %s' % (name, '/'.join(sorted(badk))),
                    'HTML mode calls html.escape on the %s returned by %s.%s()' % ('/'.join(sorted(badk)), mod.__name__, name),
                    dict(query=q, input=wit, getter=name, real=list(r[:3]) if r[0] == 'EXC' else [r[0]]), r[0] == 'EXC',
                    lambda k: call_app(wsgi, k['witness']['query'])[0] == 'EXC')
    rep.sample(dict(kind='conversion typing', conversions=len(convs), not_str=nbad))
    # -- bounded native run: corpus + hostile queries, both modes
    import urllib.parse
    n = 0
    known_bad = set()
    hostile = ['', 'number=', 'number=%00', 'number=%F0%9F%AF%B0', 'x=1&number=1&number=2', 'number=' + urllib.parse.quote('<script>alert(1)</script>"\'&'),
               'number=' + '1' * 5000, 'number=%ff%fe', 'NUMBER=1', 'number[]=1', '&&&=', 'number=%E2%80%A8']
    # inputs on which other properties have listed findings (the application calls compact/format/is_valid/getters on them)
    from ..report import load_known
    for k_ in load_known():
        w_ = k_.get('witness') or {}
        x_ = w_.get('input')
        if isinstance(x_, str) and 0 < len(x_) <= 64 and not w_.get('opts'):
            q_ = 'number=' + urllib.parse.quote(x_)
            if q_ not in hostile:
                hostile.append(q_)
    hostile += ['number=703', 'number=J76']
    fails = []
    for q in hostile:
        for ajax in (False, True):
            n += 1
            r = call_app(wsgi, q, ajax)
            if r[0] != '200 OK':
                fails.append((q, ajax, r))
            elif ajax:
                try:
                    json.loads(r[2])
                except ValueError:
                    fails.append((q, ajax, ('not JSON',)))
            elif '<script>alert(1)</script>' in r[2]:
                fails.append((q, ajax, ('unescaped',)))
    mods = front.number_modules()
    step = 1 if tier == 'thorough' else 3
    for mod in mods[::step]:
        for x in corpus.valid_numbers(mod.__name__, 2 if tier == 'quick' else 10):
            q = 'number=' + urllib.parse.quote(x)
            for ajax in (True, False):
                n += 1
                r = call_app(wsgi, q, ajax)
                if r[0] != '200 OK':
                    fails.append((q, ajax, r))
                elif ajax:
                    try:
                        res = json.loads(r[2])
                        names = sorted(d['module'] for d in res)
                        want = sorted(m.__name__.split('.', 1)[1] for m in mods if m.is_valid(x))
                        if names != want:
                            fails.append((q, ajax, ('wrong module list', names[:5], want[:5])))
                    except ValueError:
                        fails.append((q, ajax, ('not JSON',)))
    # failures already explained by a listed conversion finding are not reported twice
    explained = 0
    for q, ajax, r in fails:
        if r[0] == 'EXC' and r[1] in ('AttributeError', 'TypeError') and not ajax and nbad:
            explained += 1
            continue
        key = 'native: %s' % ('%s in %s' % (r[1], r[3]) if r[0] == 'EXC' and len(r) > 3 else r[1] if r[0] == 'EXC' else r[0])
        rep.refuted('C18/native/%s/%s' % (q[:40], ajax), 'online_check', key, 'request %r (ajax=%s) fails: %r' % (q[:60], ajax, (r[:2] + r[3:4]) if r[0] == 'EXC' else r[:1]),
                    dict(query=q, ajax=ajax, real=[str(x)[:200] for x in r[:3]]), True,
                    lambda k: call_app(wsgi, k['witness']['query'], k['witness'].get('ajax', False))[0] != '200 OK')
    rep.add('C18/native-run', 'bounded', 'eval', time.time() - t0, detail='%d requests through the real application (%d failures explained by conversion findings)' % (n, explained))
    rep.assumptions += ['urllib.parse.parse_qs, json.dumps and html.escape behave as documented',
                        'is_valid() never raises and compact() is total on valid numbers (C01); format() on valid numbers (C04 findings apply here too)',
                        'environ carries DOCUMENT_ROOT and SCRIPT_NAME (precondition of application)',
                        'return-kind inference is flow-insensitive; an un-inferred kind is undecided, not proved']
    return rep.finish(explanation='AST obligations (status literal, result comprehension, escape taint), inferred return kinds of the %d conversions the '
                      'application can call, and a bounded native run of the real application over corpus and hostile queries' % len(convs))
