"""C07: international identifiers agree with an independent reading of their standard.

For each listed module the real validate() and the spec function of contracts/specs.py (an independent transcription
of the published rules) are executed symbolically on the same unknown input, in one path context, for every compact
length 0..40 and for the unbounded tail; the obligation on every joint path is: same outcome (accept / reject) and the
same canonical form.  Registry tables and country lists are shared inputs.  Bitcoin (SHA-256, base-58 big-number loop,
bech32 polymod) is outside the subset: bounded differential against an independent transcription, labelled bounded.
"""
import hashlib
import importlib
import os
import random
import re
import sys
import time
import z3

from .. import front, isets, absstr, corpus, pool
from ..ctx import Raise, Unsupported, Restart, Infeasible
from ..interp import Interp, Func
from ..explore import explore_closure, witness_string, today_of
from ..absstr import raw_input
from ..sym import AbstractStr, FixedStr, LongStr, tostr, str_eq, Not, toz3, is_sym
from ..report import Report
from ..replay import call_real

MODULES = {
    'stdnum.isbn': ('isbn', {}), 'stdnum.ean': ('ean', {}), 'stdnum.issn': ('issn', {}), 'stdnum.ismn': ('ismn', {}),
    'stdnum.isin': ('isin', {}), 'stdnum.iban': ('iban', dict(check_country=False)), 'stdnum.imei': ('imei', {}),
    'stdnum.iso11649': ('iso11649', {}), 'stdnum.isni': ('isni', {}), 'stdnum.lei': ('lei', {}), 'stdnum.grid': ('grid', {}),
    'stdnum.cusip': ('cusip', {}), 'stdnum.gb.sedol': ('sedol', {}), 'stdnum.figi': ('figi', {}), 'stdnum.imo': ('imo', {}),
    'stdnum.casrn': ('casrn', {}), 'stdnum.bic': ('bic', {}), 'stdnum.isrc': ('isrc', {}),
}


# formats whose published form carries a literal prefix (IMO 1234567, GRID:A1-...): the spec strips it itself
PREFIXED = {'stdnum.imo', 'stdnum.grid'}


def _helpers(I):
    """the shared inputs of the specs: registry tables, country lists, the ISO 7064 algorithms (by their contracts)"""
    import stdnum.isin
    import stdnum.isrc
    import stdnum.numdb
    import stdnum.iso7064.mod_97_10 as m97
    import stdnum.iso7064.mod_37_36 as m3736
    reg = {}
    for e in stdnum.numdb.get('iban').prefixes:
        reg[e[1]] = [(int(k), t) for k, t in re.findall(r'([1-9][0-9]*)!([nac])', e[3].get('bban', ''))]
    ck97 = front.func_of(m97.checksum, Func)
    ck3736 = front.func_of(m3736.checksum, Func)

    def mod97(s):
        try:
            return I.call(ck97, [s], {}, {}, ck97.module)
        except Raise:
            return -1

    def mod3736_ok(s):
        try:
            return I.compare(__import__('ast').Eq(), I.call(ck3736, [s], {}, {}, ck3736.module), 1)
        except Raise:
            return False

    def structure(cc):
        cc = I.need_concrete_from(cc, sorted(reg))
        return reg.get(cc)
    return dict(mod97=mod97, mod3736_ok=mod3736_ok, structure=structure, isin_countries=set(stdnum.isin._country_codes),
                isrc_countries=set(stdnum.isrc._country_codes))


class SpecInterp(Interp):
    helpers = None

    def need_concrete_from(self, v, cands):
        v = self.norm_str(v)
        if isinstance(v, str):
            return v
        for c in cands:
            if len(c) == len(v) and self.ctx.branch(str_eq(v, c)):
                return c
        return None

    def extern_call(self, fn, args, kwargs):
        if getattr(fn, '_spec_helper', False):
            return fn(*args)
        return NotImplemented


def _relational(arg):
    modname, n, tier = arg if len(arg) == 3 else (arg[0], arg[1], 'quick')
    isets.warm()
    absstr.table_lemmas()
    specname, vopts = MODULES[modname]
    import contracts.specs as specs
    E = importlib.import_module('stdnum.exceptions')
    mod = importlib.import_module(modname)
    V = front.func_of(mod.validate, Func)
    C = front.func_of(mod.compact, Func)
    S = front.func_of(getattr(specs, specname), Func)

    def run(I, ctx):
        h = _helpers(I)
        for k in ('mod97', 'mod3736_ok', 'structure'):
            h[k]._spec_helper = True
        raw = raw_input()
        mark = len(I.fnstack)
        try:
            v1 = I.call(V, [raw], dict(vopts), {}, V.module)
            if isinstance(v1, AbstractStr):
                v1 = I.materialise(v1)
            r1 = ('accept', v1)
        except Raise as r:
            del I.fnstack[mark:]
            if not issubclass(r.cls, E.ValidationError):
                return ('c01', r.cls.__name__)
            r1 = ('reject', r.cls.__name__)
        try:
            kw = dict(convert=False) if modname == 'stdnum.isbn' else {}
            c = I.call(C, [raw], kw, {}, C.module)
            if isinstance(c, AbstractStr):
                c = I.materialise(c)
        except Raise as r:
            del I.fnstack[mark:]
            return (r1, ('reject', 'compact raises'), None)
        if modname in PREFIXED and ctx.primary is not None:
            # the spec handles the written prefix itself: it gets the separator-free upper-case text, not compact()'s result
            c = ctx.primary
        extra = []
        if specname == 'iban':
            extra = [h['structure'], h['mod97']]
        elif specname in ('iso11649', 'lei'):
            extra = [h['mod97']]
        elif specname == 'grid':
            extra = [h['mod3736_ok']]
        elif specname == 'isin':
            extra = [h['isin_countries']]
        elif specname == 'isrc':
            extra = [h['isrc_countries']]
        try:
            v2 = I.call(S, [c] + extra, {}, {}, S.module)
            if isinstance(v2, AbstractStr):
                v2 = I.materialise(v2)
            r2 = ('accept', v2)
        except Raise as r:
            del I.fnstack[mark:]
            if r.cls is specs.Reject:
                r2 = ('reject', 'spec')
            else:
                r2 = ('reject', 'spec raises %s' % r.cls.__name__)
        return (r1, r2, c)
    t0 = time.time()
    try:
        paths, status = explore_closure(run, budget=8000 if tier == 'quick' else 40000, time_limit=60 if tier == 'quick' else 400, cur_n=n,
                                        interp_cls=SpecInterp, lazy_rel=True)
    except (Unsupported, Restart) as u:
        return dict(n=n, status='undecided', why='outside the subset: %s' % (u if isinstance(u, Unsupported) else 'conflicting normalisations'))
    except z3.Z3Exception as e:
        return dict(n=n, status='undecided', why='z3: %s' % str(e)[:60])
    partial = status != 'ok'       # budget / a path outside the subset: the joint paths explored are still compared
    bads = []
    unknown = 0
    for ctx, r in paths:
        if isinstance(r, Raise) or r[0] == 'c01':
            continue
        r1, r2, c = r
        extra = None
        if r1[0] == r2[0]:
            if r1[0] == 'reject':
                continue
            a, b = r1[1], r2[1]
            if isinstance(a, (str, FixedStr)) and isinstance(b, (str, FixedStr)):
                cnd = str_eq(a, b)
                if cnd is True or (cnd is not False and ctx.entails(cnd)):
                    continue
                extra = None if cnd is False else Not(cnd)
                what = 'canonical forms differ'
            elif isinstance(a, LongStr) and isinstance(b, LongStr):
                continue
            else:
                what = 'canonical forms differ (%s vs %s)' % (type(a).__name__, type(b).__name__)
        else:
            what = 'validate() %ss (%s) but the standard %ss' % (r1[0], r1[1] if r1[0] == 'reject' else 'returns', r2[0])
        c2 = ctx.clone() if extra is not None else ctx
        try:
            if extra is not None:
                c2.assume(extra)
            res, m = c2.check_final()
        except Infeasible:
            continue
        if res == z3.unsat:
            continue
        if res == z3.unknown:
            unknown += 1
            continue
        m = m or c2.s.model()
        x = witness_string(c2, ctx.primary, m)
        bads.append(dict(input=x, what=what, approx=ctx.approx))
        if len(bads) >= 3:
            break
    st = 'refuted' if bads else ('undecided' if (unknown or partial) else 'proved')
    return dict(n=n, status=st, bads=bads, why=('path budget / subset: %s' % status) if partial else 'solver unknown on %d joint paths' % unknown,
                paths=len(paths), secs=round(time.time() - t0, 2))


def native_disagreement(modname, x):
    """-> description if validate() and the spec disagree on the real code for input x"""
    import contracts.specs as specs
    specname, vopts = MODULES[modname]
    mod = importlib.import_module(modname)
    rv = call_real(modname + ':validate', [x], vopts)
    try:
        c = mod.compact(x, convert=False) if modname == 'stdnum.isbn' else mod.compact(x)
        if modname in PREFIXED:
            from stdnum.util import clean
            c = clean(x, ' -' if modname == 'stdnum.grid' else ' ').strip().upper()
    except Exception:      # noqa: B902
        c = None
    import stdnum.isin
    import stdnum.isrc
    import stdnum.numdb
    from stdnum.iso7064 import mod_97_10, mod_37_36
    reg = {e[1]: [(int(k), t) for k, t in re.findall(r'([1-9][0-9]*)!([nac])', e[3].get('bban', ''))] for e in stdnum.numdb.get('iban').prefixes}

    def mod97(s):
        try:
            return mod_97_10.checksum(s)
        except Exception:      # noqa: B902
            return -1

    def ok3736(s):
        try:
            return mod_37_36.checksum(s) == 1
        except Exception:      # noqa: B902
            return False
    extra = {'iban': [reg.get, mod97], 'iso11649': [mod97], 'lei': [mod97], 'grid': [ok3736], 'isin': [set(stdnum.isin._country_codes)],
             'isrc': [set(stdnum.isrc._country_codes)]}.get(specname, [])
    try:
        if c is None:
            raise specs.Reject()
        s = ('return', getattr(specs, specname)(c, *extra))
    except specs.Reject:
        s = ('reject',)
    except Exception as e:      # noqa: B902
        s = ('reject',)
    acc = rv[0] == 'return'
    if acc != (s[0] == 'return'):
        return 'validate(%r) %s, the transcription of the standard %s' % (x, 'returns %r' % rv[1] if acc else 'raises %s' % rv[1], 'accepts' if s[0] == 'return' else 'rejects')
    if acc and rv[1] != s[1]:
        return 'validate(%r) returns %r, the standard form is %r' % (x, rv[1], s[1])
    if rv[0] == 'raise' and 'ValidationError' not in rv[3]:
        return None
    return None


# ---------------------------------------------------------------------------------------------- bitcoin (bounded)
_B58 = '123456789ABCDEFGHJKLMNPQRSTUVWXYZabcdefghijkmnopqrstuvwxyz'
_B32 = 'qpzry9x8gf2tvdw0s3jn54khce6mua7l'


def spec_bitcoin(s):
    """Base58Check (P2PKH/P2SH) and BIP-173 bech32 segwit addresses, written from the specifications"""
    if s[:1] in ('1', '3'):
        n = 0
        for ch in s:
            k = _B58.find(ch)
            if k < 0:
                return None
            n = n * 58 + k
        zeros = len(s) - len(s.lstrip('1'))
        body = n.to_bytes((n.bit_length() + 7) // 8, 'big') if n else b''
        raw = b'\0' * zeros + body
        if len(raw) != 25:
            return None
        if raw[-4:] != hashlib.sha256(hashlib.sha256(raw[:-4]).digest()).digest()[:4]:
            return None
        if (s[0] == '1') != (raw[0] == 0) or (s[0] == '3') != (raw[0] == 5):
            return None
        return s
    low = s.lower()
    if low[:3] == 'bc1':
        if s != low and s != s.upper():
            return None
        data = []
        for ch in low[3:]:
            k = _B32.find(ch)
            if k < 0:
                return None
            data.append(k)
        chk = 1
        for v in [3, 3, 0, 2, 3] + data:
            b = chk >> 25
            chk = (chk & 0x1ffffff) << 5 ^ v
            for i, g in enumerate((0x3b6a57b2, 0x26508e6d, 0x1ea119fa, 0x3d4233dd, 0x2a1462b3)):
                if (b >> i) & 1:
                    chk ^= g
        if chk != 1 or len(data) < 7:
            return None
        witver = data[0]
        acc = bits = 0
        prog = []
        for v in data[1:-6]:
            acc = (acc << 5) | v
            bits += 5
            while bits >= 8:
                bits -= 8
                prog.append((acc >> bits) & 0xff)
        if bits >= 5 or (acc & ((1 << bits) - 1)):
            return None
        if witver > 16 or not (2 <= len(prog) <= 40):
            return None
        if witver == 0 and len(prog) not in (20, 32):
            return None
        return low
    return None


def bitcoin_bounded(rep, tier):
    import stdnum.bitcoin as bc
    rnd = random.Random(int(os.environ.get('VERIF_SEED', '0') or 0))
    t0 = time.time()
    n = 0
    seeds = list(corpus.valid_numbers('stdnum.bitcoin', 40))

    def b58(payload):
        raw = payload + hashlib.sha256(hashlib.sha256(payload).digest()).digest()[:4]
        num = int.from_bytes(raw, 'big')
        out = ''
        while num:
            num, r = divmod(num, 58)
            out = _B58[r] + out
        return '1' * (len(raw) - len(raw.lstrip(b'\0'))) + out
    for _ in range(200 if tier == 'quick' else 20000):
        seeds.append(b58(bytes([rnd.choice([0, 5])]) + bytes(rnd.randrange(256) for _ in range(20))))
    # structured: hashes with k leading zero bytes (each encodes as one '1': the shortest and longest addresses), extreme hashes
    for k in range(0, 21):
        for ver in (0, 5):
            seeds.append(b58(bytes([ver]) + b'\0' * k + bytes(rnd.randrange(1, 256) for _ in range(20 - k))))
    seeds += [b58(bytes([ver]) + bytes([fill]) * 20) for ver in (0, 5) for fill in (0, 1, 255)]
    # the shortest encodings (26/27 characters): 19 zero bytes and every value of the last byte
    seeds += [b58(bytes([0]) + b'\0' * 19 + bytes([b])) for b in range(256)]

    # bech32 (BIP-173) addresses built here: witness version 0 with 20- and 32-byte programs, other versions and sizes
    CH = 'qpzry9x8gf2tvdw0s3jn54khce6mua7l'

    def polymod(values):
        chk = 1
        for v in values:
            top = chk >> 25
            chk = (chk & 0x1ffffff) << 5 ^ v
            for i, g in enumerate((0x3b6a57b2, 0x26508e6d, 0x1ea119fa, 0x3d4233dd, 0x2a1462b3)):
                chk ^= g if (top >> i) & 1 else 0
        return chk

    def bech32(witver, prog):
        acc = bits = 0
        data = [witver]
        for b in prog:
            acc = (acc << 8) | b
            bits += 8
            while bits >= 5:
                bits -= 5
                data.append((acc >> bits) & 31)
        if bits:
            data.append((acc << (5 - bits)) & 31)
        hrp = [ord(c) >> 5 for c in 'bc'] + [0] + [ord(c) & 31 for c in 'bc']
        pm = polymod(hrp + data + [0] * 6) ^ 1
        return 'bc1' + ''.join(CH[d] for d in data + [(pm >> 5 * (5 - i)) & 31 for i in range(6)])
    for witver, size in ((0, 20), (0, 32), (0, 21), (0, 2), (0, 40), (1, 32), (1, 2), (16, 40), (16, 2), (2, 20), (0, 41), (17, 20)):
        for _ in range(2 if tier == 'quick' else 50):
            seeds.append(bech32(witver, bytes(rnd.randrange(256) for _ in range(size))))
            seeds.append(bech32(witver, bytes(rnd.randrange(256) for _ in range(size))).upper())
    bad = None
    for s in seeds:
        cands = [s]
        for _ in range(8):
            i = rnd.randrange(len(s))
            cands.append(s[:i] + rnd.choice(_B58 + _B32) + s[i + 1:])
            cands.append(s[:i] + s[i + 1:])
        for x in cands:
            n += 1
            r = call_real('stdnum.bitcoin:validate', [x])
            want = spec_bitcoin(bc.compact(x)) if True else None
            got = r[1] if r[0] == 'return' else None
            if (got is None) != (want is None) or (got is not None and got != want):
                bad = (x, r[:2], want)
                break
        if bad:
            break
    if bad:
        rep.refuted('C07/stdnum.bitcoin/bounded', 'stdnum.bitcoin', 'bitcoin differential', 'validate(%r) -> %r, the transcription of Base58Check / BIP-173 -> %r' % bad,
                    dict(function='stdnum.bitcoin:validate', input=bad[0], real=list(bad[1]), expected=bad[2]), True)
    rep.add('C07/stdnum.bitcoin/differential', 'bounded', 'eval', time.time() - t0, detail='%d addresses and single-edit neighbours (bounded stand-in)' % n)
    rep.bounded.append('stdnum.bitcoin:validate (SHA-256, base-58 big-number loop, bech32 polymod): bounded differential, %d inputs' % n)


def bounded(rep, tier):
    rnd = random.Random(int(os.environ.get('VERIF_SEED', '0') or 0))
    t0 = time.time()
    n = 0
    for m in MODULES:
        alpha = '0123456789ABCDEFGHIJKLMNOPQRSTUVWXYZ'
        for x in corpus.valid_numbers(m, 8 if tier == 'quick' else 40):
            cands = [x]
            for _ in range(10):
                if not x:
                    break
                i = rnd.randrange(len(x))
                cands += [x[:i] + rnd.choice(alpha) + x[i + 1:], x[:i] + x[i + 1:], x[:i] + rnd.choice(alpha) + x[i:]]
            for y in cands:
                n += 1
                d = native_disagreement(m, y)
                if d:
                    rep.refuted('C07/%s/corpus' % m, m, 'corpus disagreement', d, dict(function=m + ':validate', input=y, real=d), True,
                                lambda k: native_disagreement(k['module'], k['witness']['input']) is not None)
                    break
    rep.add('C07/corpus', 'bounded', 'eval', time.time() - t0, detail='%d corpus numbers and single-edit neighbours through validate() and the spec (bounded stand-in)' % n)


def check(prop, tier, args):
    rep = Report('C07', tier, 'proof', './check C07 --tier %s' % tier, seed=int(os.environ.get('VERIF_SEED', '0') or 0))
    mods = [m for m in MODULES if not args.modules or m in args.modules]
    nmax = 40
    isets.warm()
    absstr.table_lemmas()
    items = [(m, n, tier) for m in mods for n in list(range(0, nmax + 1)) + ['long']]
    results = pool.pool_map(_relational, items, None, 200 if tier == 'quick' else 1000)
    for item, r, secs in sorted(results, key=lambda x: (x[0][0], str(x[0][1]).zfill(4))):
        m, n = item[0], item[1]
        rep.functions.update([m + ':validate', m + ':compact', 'contracts.specs:' + MODULES[m][0]])
        oid = 'C07/%s/agrees-with-spec/len=%s' % (m, n)
        if 'crash' in r:
            rep.add(oid, 'undecided', detail=r['crash'][:100])
        elif r['status'] == 'proved':
            rep.add(oid, 'proved', 'z3', r['secs'], detail='%d joint paths' % r['paths'])
            if n == 12 and len(rep.samples) < 5:
                rep.sample(dict(obligation=oid, joint_paths=r['paths']))
        elif r['status'] == 'undecided':
            rep.add(oid, 'undecided', detail=r['why'][:120])
        else:
            for b in r['bads']:
                d = native_disagreement(m, b['input'])
                key = b['what']
                rep.refuted(oid + '/' + b['what'][:40], m, key, d or b['what'], dict(function=m + ':validate', input=b['input'], real=d, opts=MODULES[m][1]),
                            d is not None, lambda k: native_disagreement(k['module'], k['witness']['input']) is not None,
                            approx=bool(b.get('approx')) or d is None)
    bounded(rep, tier)
    bitcoin_bounded(rep, tier)
    rep.assumptions += ['the library\'s compact() is the shared normalisation: the specs take the compact string',
                        'registry tables and country lists are shared inputs (as the property says)',
                        'ISO 7064 Mod 97-10 and Mod 37-36 are used by the specs through the same verified algorithm (C06)',
                        'whether the transcriptions are the right reading of the standards is outside any tool']
    return rep.finish()
