"""C09: aggregate validators accept exactly what their constituent formats accept.

 * union / superset wrappers (US TIN, Thai TIN, Belgian SSN, Spanish NIF): relational symbolic execution - the wrapper
   and every constituent validate() are run on the same unknown input in one path context, for every input length up to
   the bound and the tail; the obligation is accepts(W) <=> OR accepts(M_i)  (NIF: every accepting M_i implies W);
 * dispatch tables (EU VAT member states + XI + EL, VATIN, IBAN national modules): the table functions are evaluated on
   their complete finite key domains and compared with what stdnum/<cc>/__init__.py binds;
 * every relation additionally gets the bounded stand-in: corpus numbers of the constituents, their single-edit
   neighbours and prefix/case variants through both sides (labelled bounded).
"""
import importlib
import itertools
import os
import random
import sys
import time
import z3

from .. import front, isets, absstr, corpus, pool
from ..ctx import Raise, Unsupported, Restart, Infeasible
from ..interp import Func
from ..explore import explore_closure, witness_string, today_of
from ..absstr import raw_input
from ..sym import AbstractStr, FixedStr, tostr, toz3
from ..report import Report
from ..replay import call_real

UNIONS = {
    'stdnum.us.tin': ('union', ['stdnum.us.ssn', 'stdnum.us.itin', 'stdnum.us.ein', 'stdnum.us.ptin', 'stdnum.us.atin']),
    'stdnum.th.tin': ('union', ['stdnum.th.moa', 'stdnum.th.pin']),
    'stdnum.be.ssn': ('union', ['stdnum.be.nn', 'stdnum.be.bis']),
    'stdnum.es.nif': ('superset', ['stdnum.es.dni', 'stdnum.es.nie', 'stdnum.es.cif']),
}
THIN = {
    # wrapper: (constituent, how a constituent number becomes a wrapper number)
    'stdnum.ch.vat': ('stdnum.ch.uid', lambda v: v + 'MWST'),
    'stdnum.se.vat': ('stdnum.se.orgnr', lambda v: 'SE' + v + '01'),
    'stdnum.no.mva': ('stdnum.no.orgnr', lambda v: 'NO' + v + 'MVA'),
    'stdnum.fi.ytunnus': ('stdnum.fi.alv', lambda v: v[:-1] + '-' + v[-1]),
    'stdnum.mc.tva': ('stdnum.fr.tva', None),
    'stdnum.ro.cf': ('stdnum.ro.cui', lambda v: 'RO' + v),
    'stdnum.sk.rc': ('stdnum.cz.rc', lambda v: v),
}


def _relational(arg):
    wname, kind, consts, n = arg
    isets.warm()
    absstr.table_lemmas()
    E = importlib.import_module('stdnum.exceptions')
    W = front.func_of(importlib.import_module(wname).validate, Func)
    Ms = [front.func_of(importlib.import_module(c).validate, Func) for c in consts]

    def accepts(I, f, raw):
        mark = len(I.fnstack)
        try:
            v = I.call(f, [raw], {}, {}, f.module)
            return True
        except Raise as r:
            del I.fnstack[mark:]
            if issubclass(r.cls, E.ValidationError):
                return False
            raise

    def run(I, ctx):
        raw = raw_input()
        a = accepts(I, W, raw)
        bs = [accepts(I, m, raw) for m in Ms]
        return (a, bs)
    t0 = time.time()
    try:
        paths, status = explore_closure(run, budget=6000, time_limit=150, cur_n=n, lazy_rel=True)
    except (Unsupported, Restart) as u:
        return dict(n=n, status='undecided', why='outside the subset: %s' % (u if isinstance(u, Unsupported) else 'conflicting normalisations'))
    except z3.Z3Exception as e:
        return dict(n=n, status='undecided', why='z3: %s' % str(e)[:60])
    partial = status != 'ok'
    bad = None
    for ctx, r in paths:
        if isinstance(r, Raise):
            continue        # a non-ValidationError: a C01 matter, reported there
        a, bs = r
        ok = (a == any(bs)) if kind == 'union' else (a or not any(bs))
        if ok:
            continue
        m = ctx.model()
        if m is None:
            continue
        x = witness_string(ctx, ctx.primary, m)
        bad = dict(input=x, wrapper_accepts=a, constituents=dict(zip(consts, bs)), approx=ctx.approx)
        break
    if partial and not bad:
        return dict(n=n, status='undecided', why='path budget / subset: %s' % status)
    return dict(n=n, status='refuted' if bad else 'proved', bad=bad, paths=len(paths), secs=round(time.time() - t0, 2))


# thin wrappers: one constituent, the wrapper adds or checks a fixed decoration.  part(chars of the wrapper's result) is the
# embedded constituent number as the format describes it; build(constituent result) is the wrapper number made from it
THIN_SPEC = {
    'stdnum.no.mva': dict(const='stdnum.no.orgnr', part=lambda ch: ch[:-3], build=lambda ch: ch + [ord(c) for c in 'MVA']),
    'stdnum.se.vat': dict(const='stdnum.se.orgnr', part=lambda ch: ch[:-2], build=lambda ch: ch + [ord(c) for c in '01']),
    'stdnum.ch.vat': dict(const='stdnum.ch.uid', part=lambda ch: ch[:12], build=lambda ch: ch + [ord(c) for c in 'MWST']),
    'stdnum.fi.ytunnus': dict(const='stdnum.fi.alv', part=lambda ch: ch, build=lambda ch: ch),
    'stdnum.sk.rc': dict(const='stdnum.cz.rc', part=lambda ch: ch, build=lambda ch: ch),
    # mc.tva returns 'FR' + the TVA number: the relation is stated on the same raw input (fr.tva strips a leading FR from
    # whatever it is given, so re-validating an extracted part would meet the listed C02 finding of fr.tva instead)
    'stdnum.mc.tva': dict(const='stdnum.fr.tva', part='raw', build=None),
}


def _thin(arg):
    """W accepts x with result v  =>  the constituent accepts part(v);   C accepts x with result v  =>  W accepts build(v)"""
    wname, n = arg
    isets.warm()
    absstr.table_lemmas()
    spec = THIN_SPEC[wname]
    E = importlib.import_module('stdnum.exceptions')
    W = front.func_of(importlib.import_module(wname).validate, Func)
    C = front.func_of(importlib.import_module(spec['const']).validate, Func)
    t0 = time.time()
    bad = None
    total = 0
    for direction in ('wrapper=>constituent', 'constituent=>wrapper'):
        first, second, tr = (W, C, spec['part']) if direction.startswith('wrapper') else (C, W, spec['build'])
        if tr is None:
            continue

        def run(I, ctx, first=first, second=second, tr=tr):
            raw = raw_input()
            try:
                v = I.call(first, [raw], {}, {}, first.module)
            except Raise as r:
                if issubclass(r.cls, E.ValidationError):
                    return 'rejected'
                raise
            if isinstance(v, AbstractStr):
                v = I.materialise(v)
            if not isinstance(v, (str, FixedStr)):
                return 'rejected'
            arg2 = raw if tr == 'raw' else FixedStr(list(tr(list(tostr(v).chars))))
            ctx.second_arg = arg2
            mark = len(I.fnstack)
            try:
                I.call(second, [arg2], {}, {}, second.module)
                return 'both'
            except Raise as r:
                del I.fnstack[mark:]
                if issubclass(r.cls, E.ValidationError):
                    return ('second rejects', r.cls.__name__)
                raise
        try:
            paths, status = explore_closure(run, budget=4000, time_limit=100, cur_n=n, lazy_rel=True)
        except (Unsupported, Restart) as u:
            return dict(n=n, status='undecided', why='outside the subset: %s' % (u if isinstance(u, Unsupported) else 'conflicting normalisations'))
        except z3.Z3Exception as e:
            return dict(n=n, status='undecided', why='z3: %s' % str(e)[:60])
        if status != 'ok':
            return dict(n=n, status='undecided', why='path budget')
        total += len(paths)
        for ctx, r in paths:
            if isinstance(r, Raise) or not isinstance(r, tuple):
                continue
            m = ctx.model()
            if m is None:
                continue
            x = witness_string(ctx, ctx.primary, m)
            bad = dict(input=x, direction=direction, second=None if isinstance(ctx.second_arg, AbstractStr) else witness_string(ctx, ctx.second_arg, m), why=r[1], approx=ctx.approx)
            break
        if bad:
            break
    return dict(n=n, status='refuted' if bad else 'proved', bad=bad, paths=total, secs=round(time.time() - t0, 2))


def native_thin(wname, x, direction):
    """-> description if the thin-wrapper relation fails on the real code for raw input x"""
    spec = THIN_SPEC[wname]
    first, second, tr = (wname, spec['const'], spec['part']) if direction.startswith('wrapper') else (spec['const'], wname, spec['build'])
    a = call_real(first + ':validate', [x])
    if a[0] != 'return' or not isinstance(a[1], str) or tr is None:
        return None
    y = x if tr == 'raw' else ''.join(chr(c) for c in tr([ord(c) for c in a[1]]))
    b = call_real(second + ':validate', [y])
    if b[0] == 'raise':
        return '%s accepts %r (-> %r) but %s rejects %r (%s)' % (first, x, a[1], second, y, b[1])
    return None


def native_relation(wname, kind, consts, x):
    """-> None if the relation holds on the real code for input x, else a description"""
    w = call_real(wname + ':is_valid', [x])
    cs = [call_real(c + ':is_valid', [x]) for c in consts]
    if w[0] != 'return' or any(c[0] != 'return' for c in cs):
        return None
    a, bs = w[1], [c[1] for c in cs]
    if kind == 'union' and a != any(bs):
        return '%s.is_valid=%s but constituents %s' % (wname, a, dict(zip(consts, bs)))
    if kind == 'superset' and any(bs) and not a:
        return '%s rejects a number accepted by %s' % (wname, [c for c, b in zip(consts, bs) if b])
    return None


def neighbours(x, rnd, k=12):
    out = [x]
    alpha = '0123456789ABCDEFGHIJKLMNOPQRSTUVWXYZ'
    for _ in range(k):
        if not x:
            break
        i = rnd.randrange(len(x))
        op = rnd.choice('sdti')
        if op == 's':
            out.append(x[:i] + rnd.choice(alpha) + x[i + 1:])
        elif op == 'd':
            out.append(x[:i] + x[i + 1:])
        elif op == 't' and i + 1 < len(x):
            out.append(x[:i] + x[i + 1] + x[i] + x[i + 2:])
        else:
            out.append(x[:i] + rnd.choice(alpha + ' -.') + x[i:])
    out += [x.lower(), ' ' + x + ' ']
    return out


def vat_module(cc):
    """the module stdnum/<cc>/__init__.py binds as `vat` (read from its AST), else the submodule stdnum.<cc>.vat"""
    import ast
    path = os.path.join(front.REPO, 'stdnum', cc, '__init__.py')
    tree = ast.parse(open(path, encoding='utf-8').read())
    for n in tree.body:
        if isinstance(n, ast.ImportFrom):
            for a in n.names:
                if a.asname == 'vat':
                    return importlib.import_module(n.module + '.' + a.name)
        if isinstance(n, ast.Import):
            for a in n.names:
                if a.asname == 'vat':
                    return importlib.import_module(a.name)
    return importlib.import_module('stdnum.%s.vat' % cc)


def tables(rep):
    """dispatch tables evaluated on their complete finite key domains"""
    import stdnum.eu.vat as euvat
    import stdnum.vatin as vatin
    import stdnum.iban as iban
    t0 = time.time()
    alias = {'el': 'gr', 'xi': 'gb'}
    keys = sorted(euvat.MEMBER_STATES | {'el'})
    for cc in keys:
        for variant in (cc, cc.upper(), cc.capitalize()):
            want = vat_module(alias.get(cc, cc))
            got = euvat._get_cc_module(variant)
            oid = 'C09/eu.vat/table/%s' % variant
            if got is want:
                rep.add(oid, 'exhaustive', 'eval', detail='-> %s' % want.__name__)
            else:
                x = (corpus.valid_numbers(want.__name__, 1) or ['?'])[0]
                r = call_real('stdnum.eu.vat:validate', [cc.upper() + x])
                rep.refuted(oid, 'stdnum.eu.vat', 'table %s' % cc, 'country code %s dispatches to %s, the member state validator is %s' % (variant, getattr(got, '__name__', got), want.__name__),
                            dict(function='stdnum.eu.vat:_get_cc_module', input=variant, real=str(getattr(got, '__name__', got))), True)
    # everything that is not a member state (all two-letter codes) is refused
    import string
    nbad = 0
    for a in string.ascii_lowercase:
        for b in string.ascii_lowercase:
            cc = a + b
            if cc in keys or cc in ('eu', 'im'):
                continue
            if euvat._get_cc_module(cc) is not None:
                nbad += 1
                rep.refuted('C09/eu.vat/table/non-member/%s' % cc, 'stdnum.eu.vat', 'non-member %s' % cc, 'country code %s is not a member state but has a validator' % cc,
                            dict(function='stdnum.eu.vat:_get_cc_module', input=cc), True)
    if not nbad:
        rep.add('C09/eu.vat/table/non-members', 'exhaustive', 'eval', detail='%d other two-letter codes are refused' % (26 * 26 - len(keys) - 2))
    # vatin: the same module as eu.vat for every member state
    for cc in keys:
        try:
            got = vatin._get_cc_module(cc)
        except Exception as e:      # noqa: B902
            got = e
        want = vat_module(alias.get(cc, cc))
        oid = 'C09/vatin/table/%s' % cc
        if got is want:
            rep.add(oid, 'exhaustive', 'eval')
        else:
            rep.refuted(oid, 'stdnum.vatin', 'table %s' % cc, 'vatin dispatches %s to %r, eu.vat to %s' % (cc, got, want.__name__),
                        dict(function='stdnum.vatin:_get_cc_module', input=cc), True)
    # iban: a national validator exists exactly for the countries with stdnum/<cc>/iban
    import stdnum.numdb as nd
    for e in nd.get('iban').prefixes:
        cc = e[1]
        got = iban._get_cc_module(cc)
        try:
            want = importlib.import_module('stdnum.%s.iban' % cc.lower())
        except ImportError:
            want = None
        oid = 'C09/iban/table/%s' % cc
        if got is want:
            rep.add(oid, 'exhaustive', 'eval', detail='-> %s' % (want.__name__ if want else 'generic rules only'))
        else:
            rep.refuted(oid, 'stdnum.iban', 'table %s' % cc, 'IBAN country %s dispatches to %r, expected %r' % (cc, got, want), dict(function='stdnum.iban:_get_cc_module', input=cc), True)
    rep.extra['table_secs'] = round(time.time() - t0, 2)


def bounded(rep, tier):
    rnd = random.Random(int(os.environ.get('VERIF_SEED', '0') or 0))
    t0 = time.time()
    n = 0
    per = 5 if tier == 'quick' else 40
    import stdnum.eu.vat as euvat
    # union / superset wrappers
    for w, (kind, consts) in UNIONS.items():
        for c in consts + [w]:
            for x in corpus.valid_numbers(c, per):
                for y in neighbours(x, rnd):
                    n += 1
                    d = native_relation(w, kind, consts, y)
                    if d:
                        rep.refuted('C09/%s/bounded' % w, w, 'relation ' + kind, d, dict(function=w + ':validate', input=y, real=d), True,
                                    lambda k: native_relation(k['module'], UNIONS[k['module']][0], UNIONS[k['module']][1], k['witness']['input']) is not None)
                        break
    # eu.vat / vatin against the member state validators
    alias = {'el': 'gr', 'xi': 'gb'}
    for cc in sorted(euvat.MEMBER_STATES | {'el'}):
        m = vat_module(alias.get(cc, cc))
        for x in corpus.valid_numbers(m.__name__, per) + corpus.synth_valid(m.__name__, 6 if tier == 'quick' else 60):
            try:
                v = m.compact(x)
            except Exception:      # noqa: B902
                continue
            body = v[2:] if v[:2].lower() in (cc, alias.get(cc, cc)) else v
            for y in neighbours(cc.upper() + body, rnd, 6):
                n += 1
                e = call_real('stdnum.eu.vat:validate', [y])
                t = y.strip().upper()
                want = None
                if t[:2].lower() == cc:
                    c = call_real(m.__name__ + ':validate', [__import__('stdnum.util', fromlist=['x']).clean(y, '').upper().strip()])
                    if c[0] != e[0]:
                        want = 'eu.vat %s but %s %s' % (e[0], m.__name__, c[0])
                    elif c[0] == 'return' and e[1] != (c[1] if c[1].startswith(t[:2]) else t[:2] + c[1]):
                        want = 'eu.vat returns %r, the member state validator %r (the prefix is attached exactly once)' % (e[1], c[1])
                    elif e[0] == 'return' and not e[1].startswith(t[:2]):
                        want = 'result %r does not carry the prefix' % e[1]
                v_ = call_real('stdnum.vatin:validate', [y])
                if want is None and e[0] == 'return' and not (v_[0] == 'return' and v_[1] == e[1]):
                    want = 'vatin differs from eu.vat: %r vs %r' % (v_[:2], e[:2])
                if want:
                    rep.refuted('C09/eu.vat/bounded/%s' % cc, 'stdnum.eu.vat', 'eu.vat vs %s' % cc, want, dict(function='stdnum.eu.vat:validate', input=y, real=want), True)
                    break
    # guess_country lists exactly the accepting constituents
    for cc in sorted(euvat.MEMBER_STATES):
        m = vat_module(alias.get(cc, cc))
        for x in corpus.valid_numbers(m.__name__, 2):
            n += 1
            g = set(euvat.guess_country(x))
            want = {c for c in euvat.MEMBER_STATES if euvat._get_cc_module(c).is_valid(x)}
            if g != want:
                rep.refuted('C09/eu.vat/guess_country', 'stdnum.eu.vat', 'guess_country', 'guess_country(%r) = %s, accepting constituents %s' % (x, sorted(g), sorted(want)),
                            dict(function='stdnum.eu.vat:guess_country', input=x), True)
                break
    # iban: generic and national
    import stdnum.iban as iban
    for cc in ('be', 'es', 'me', 'no'):
        nat = importlib.import_module('stdnum.%s.iban' % cc)
        for x in corpus.valid_numbers(nat.__name__, per) + corpus.valid_numbers('stdnum.iban', per):
            for y in neighbours(x, rnd, 6):
                n += 1
                a = iban.is_valid(y)
                g = iban.is_valid(y, check_country=False)
                c = iban.compact(y)[:2].lower() if g else None
                b = g and (nat.is_valid(y) if c == cc else True)
                if c in (None, cc) and a != b:
                    rep.refuted('C09/iban/bounded/%s' % cc, 'stdnum.iban', 'iban vs %s' % cc, 'iban.is_valid(%r)=%s, generic=%s national=%s' % (y, a, g, nat.is_valid(y)),
                                dict(function='stdnum.iban:validate', input=y), True)
                    break
    # thin wrappers
    for w, (c, conv) in THIN.items():
        wm, cm = importlib.import_module(w), importlib.import_module(c)
        for x in corpus.valid_numbers(c, per):
            if conv is None:
                continue
            try:
                y = conv(cm.validate(x))
            except Exception:      # noqa: B902
                continue
            for z in neighbours(y, rnd, 4):
                n += 1
            n += 1
            if not wm.is_valid(y):
                rep.refuted('C09/%s/bounded' % w, w, 'thin wrapper', '%s rejects %r built from the valid %s %r' % (w, y, c, x), dict(function=w + ':validate', input=y), True)
                break
    rep.add('C09/bounded-differential', 'bounded', 'eval', time.time() - t0, detail='%d inputs through wrappers and constituents (bounded stand-in)' % n)


def check(prop, tier, args):
    rep = Report('C09', tier, 'other', './check C09 --tier %s' % tier, seed=int(os.environ.get('VERIF_SEED', '0') or 0))
    tables(rep)
    items = []
    nmax = 16 if tier == 'quick' else 24
    for w, (kind, consts) in UNIONS.items():
        for n in list(range(0, nmax + 1)):
            items.append((w, kind, consts, n))
    results = pool.pool_map(_relational, items, None, 400)
    for item, r, secs in sorted(results, key=lambda x: (x[0][0], x[0][3])):
        w, kind, consts, n = item
        rep.functions.update([w + ':validate'] + [c + ':validate' for c in consts])
        oid = 'C09/%s/%s-of-constituents/len=%s' % (w, kind, n)
        if 'crash' in r:
            rep.add(oid, 'undecided', detail=r['crash'][:100])
        elif r['status'] == 'proved':
            rep.add(oid, 'proved', 'z3', r['secs'], detail='%d joint paths: wrapper accepts exactly when a constituent does' % r['paths'])
            if n == 9:
                rep.sample(dict(obligation=oid, joint_paths=r['paths']))
        elif r['status'] == 'undecided':
            rep.add(oid, 'undecided', detail=r['why'][:120])
        else:
            b = r['bad']
            d = native_relation(w, kind, consts, b['input'])
            rep.refuted(oid, w, 'relation ' + kind, 'wrapper and constituents disagree: %s' % (d or b), dict(function=w + ':validate', input=b['input'], real=d, model=repr(b)[:300]),
                        d is not None, lambda k: native_relation(k['module'], UNIONS[k['module']][0], UNIONS[k['module']][1], k['witness']['input']) is not None,
                        approx=bool(b.get('approx')) or d is None)
    titems = [(w, n) for w in THIN_SPEC for n in range(0, nmax + 1)]
    for item, r, secs in sorted(pool.pool_map(_thin, titems, None, 300), key=lambda x: (x[0][0], x[0][1])):
        w, n = item
        c = THIN_SPEC[w]['const']
        rep.functions.update([w + ':validate', c + ':validate'])
        oid = 'C09/%s/wrapper-of-%s/len=%s' % (w, c.replace('stdnum.', ''), n)
        if 'crash' in r:
            rep.add(oid, 'undecided', detail=r['crash'][:100])
        elif r['status'] == 'proved':
            rep.add(oid, 'proved', 'z3', r['secs'], detail='%d joint paths: the wrapper accepts exactly the decorated constituent numbers' % r['paths'])
        elif r['status'] == 'undecided':
            rep.add(oid, 'undecided', detail=r['why'][:120])
        else:
            b = r['bad']
            d = native_thin(w, b['input'], b['direction'])
            rep.refuted(oid, w, 'thin wrapper ' + b['direction'], 'wrapper and constituent disagree: %s' % (d or b), dict(function=w + ':validate', input=b['input'],
                        direction=b['direction'], real=d, model=repr(b)[:300]), d is not None,
                        lambda k: native_thin(k['module'], k['witness']['input'], k['witness'].get('direction') or k['key'].replace('thin wrapper ', '')) is not None,
                        approx=bool(b.get('approx')) or d is None)
    bounded(rep, tier)
    rep.assumptions += ['relational runs cover input lengths 0..%d of the normalised input (longer inputs: bounded stand-in only)' % nmax,
                        'EU VAT / VATIN / IBAN: the dispatch tables are evaluated exhaustively; the equality of results with the constituent on all inputs is '
                        'a bounded differential (corpus, single-edit neighbours, prefix/case variants)']
    return rep.finish(explanation='relational symbolic execution of the union wrappers with their constituents on one unknown input per length; exhaustive '
                      'evaluation of the finite dispatch tables; bounded differential for every wrapper/constituent relation')
