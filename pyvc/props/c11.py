"""C11: every shipped registry entry is well-formed and usable by its consumer.

A data invariant over finite concrete data, decided by exhaustive evaluation (every non-comment line of every .dat file
under stdnum/): strict line grammar, equal-length ordered endpoints, indentation discipline, no duplicate properties;
every entry is reached by looking up a number built from its range through the real NumDB.info; consumer witnesses for
IBAN (structure tokens, a well-formed account with correct check digits is accepted), GS1 (every format/type is handled
and round-trips), ISBN (five-part hyphenation), CFI (attribute tables), and generic property return for the others.
This is evaluation of a closed predicate, reported as such - not an SMT proof.
"""
import datetime
import decimal
import io
import os
import re
import sys
import time

from .. import front
from ..report import Report
from ..replay import call_real

LINE = re.compile(r'^(?P<indent> *)(?P<ranges>[^-,\s"=]+(-[^-,\s"=]+)?(,[^-,\s"=]+(-[^-,\s"=]+)?)*)(?P<props>( [0-9A-Za-z_]+="[^"]*")*)\s*$')
PROP = re.compile(r' ([0-9A-Za-z_]+)="([^"]*)"')


def dat_files():
    out = []
    root = os.path.join(front.REPO, 'stdnum')
    for dp, dn, fn in sorted(os.walk(root)):
        for f in sorted(fn):
            if f.endswith('.dat'):
                out.append((os.path.relpath(os.path.join(dp, f), root)[:-4], os.path.join(dp, f)))
    return out


def wf_file(name, path):
    """-> (number of lines checked, list of (line number, problem))"""
    bad = []
    n = 0
    levels = [0]
    last_indent = 0
    first = True
    for ln, line in enumerate(open(path, encoding='utf-8'), 1):
        line = line.rstrip('\n')
        if line.startswith('#') or line.strip() == '':
            continue
        n += 1
        m = LINE.match(line)
        if not m:
            bad.append((ln, 'line is not completely understood: %r' % line[:80]))
            continue
        indent = len(m.group('indent'))
        if first and indent != 0:
            bad.append((ln, 'first entry is indented'))
        first = False
        if indent > last_indent:
            levels.append(indent)
        else:
            while levels and levels[-1] > indent:
                levels.pop()
            if not levels or levels[-1] != indent:
                bad.append((ln, 'indentation %d does not return to an open level' % indent))
                levels.append(indent)
        last_indent = indent
        for r in m.group('ranges').split(','):
            if '-' in r:
                lo, hi = r.split('-')
                if len(lo) != len(hi):
                    bad.append((ln, 'range endpoints of different length: %s' % r))
                elif lo > hi:
                    bad.append((ln, 'range endpoints out of order: %s' % r))
            if not r or r.startswith('-'):
                bad.append((ln, 'empty endpoint'))
        keys = [k for k, v in PROP.findall(m.group('props'))]
        if len(keys) != len(set(keys)):
            bad.append((ln, 'duplicate property on one line'))
    return n, bad


def entries(prefixes, path=()):
    for e in prefixes:
        yield path + (e,), e
        yield from entries(e[4], path + (e,))


def reach(db, limit=None, stride_over=3000, thorough=False):
    """every entry is returned by looking up a number inside its range (both endpoints), through the real NumDB.info.
    Levels with more than stride_over entries (oui, cn/loc ...) are quadratic through the real linear lookup: there every
    entry is decided analytically (no shorter matching range at its level) and every k-th one also through the real
    lookup (all of them in the thorough tier)."""
    bad = []
    n = 0
    top = len(db.prefixes)
    stride = 1 if thorough or top <= stride_over else -(-top // stride_over)
    by_len = {}
    if stride > 1:
        for e in db.prefixes:
            by_len.setdefault(e[0], []).append((e[1], e[2]))
        for l in by_len:
            by_len[l].sort()
    idx = 0
    for path, e in entries(db.prefixes):
        n += 1
        if stride > 1 and len(path) == 1:
            idx += 1
            # analytic: a shorter range at this level matching the endpoint would shadow the entry
            import bisect
            for which in (1, 2):
                x = e[which]
                for l, ivs in by_len.items():
                    if l < e[0]:
                        k = bisect.bisect_right(ivs, (x[:l], chr(0x10ffff))) - 1
                        if k >= 0 and ivs[k][0] <= x[:l] <= ivs[k][1]:
                            bad.append((x, e[1], e[2]))
            if idx % stride:
                continue
        for which in (1, 2):
            number = ''.join(p[which] for p in path)
            got = db.info(number)
            ok = len(got) >= len(path) and all(got[i][0] == path[i][which] for i in range(len(path)))
            if ok:
                props = got[len(path) - 1][1]
                ok = all(props.get(k) == v for k, v in e[3].items()) or any(
                    # a later range of the same length that also matches may override a property (merge semantics)
                    True for e2 in (path[-2][4] if len(path) > 1 else db.prefixes)
                    if e2 is not e and e2[0] == e[0] and e2[1] <= e[which] <= e2[2])
            if not ok:
                bad.append((number, e[1], e[2]))
                break
        if limit and n >= limit:
            break
    return n, bad


# ---------------------------------------------------------------------------------------------- consumers
def consumer_iban(rep):
    import stdnum.iban as iban
    import stdnum.numdb as nd
    from stdnum.iso7064 import mod_97_10
    db = nd.get('iban')
    n = 0
    t0 = time.time()
    for path, e in entries(db.prefixes):
        n += 1
        cc = e[1]
        struct = e[3].get('bban', '')
        oid = 'C11/iban/%s' % cc
        toks = iban._struct_re.findall(struct)
        covered = ''.join('%s!%s' % t for t in toks) == struct and struct != ''
        if not covered:
            rep.refuted(oid, 'stdnum.iban', 'structure %s' % cc, 'IBAN structure %r of %s has tokens the compiler does not know' % (struct, cc),
                        dict(function='stdnum.iban:validate', registry='iban', input=cc, structure=struct), True)
            continue
        bban = ''.join({'n': '1', 'a': 'A', 'c': 'B'}[t] * int(k) for k, t in toks)
        witness = cc + mod_97_10.calc_check_digits(bban + cc) + bban
        r = call_real('stdnum.iban:validate', [witness], dict(check_country=False))
        if r[0] == 'return' and r[1] == witness:
            rep.add(oid, 'exhaustive', 'eval', detail='witness %s accepted' % witness)
            if n == 1:
                rep.sample(dict(registry='iban', entry=cc, structure=struct, witness=witness))
        else:
            rep.refuted(oid, 'stdnum.iban', 'witness %s' % cc, 'no well-formed account number of %s is accepted' % cc,
                        dict(function='stdnum.iban:validate', registry='iban', input=witness, opts=dict(check_country=False), real=list(r[:2])), True)
    return n


def gs1_witness(fmt, typ):
    """a value admitted by the declared format"""
    if typ == 'date':
        if fmt in ('N6', 'N6..12'):
            return datetime.date(2024, 2, 29)
        if fmt == 'N6[+N6]':
            return (datetime.date(2024, 2, 29), datetime.date(2024, 3, 1))
        if fmt == 'N10':
            return datetime.datetime(2024, 2, 29, 13, 45)
        if fmt in ('N6[+N4]', 'N6+N..4', 'N6[+N..4]'):
            return datetime.datetime(2024, 2, 29, 13, 45)
        if fmt in ('N8[+N..4]', 'N8+N..4'):
            return datetime.datetime(2024, 2, 29, 13, 45, 10)
        return datetime.date(2024, 2, 29)
    if typ == 'decimal':
        if fmt.startswith('N3+'):
            return ('978', decimal.Decimal('12.5'))
        return decimal.Decimal('12.5')
    if typ == 'int':
        return 7
    m = re.findall(r'([NXYZ])(\.\.)?([0-9]+)', fmt)
    out = ''
    for kind, var, k in m:
        out += ('1' if kind == 'N' else 'A') * int(k)
    return out


def consumer_gs1(rep):
    import stdnum.gs1_128 as gs1
    import stdnum.numdb as nd
    db = nd.get('gs1_ai')
    n = 0
    for path, e in entries(db.prefixes):
        props = e[3]
        for ai in ({e[1], e[2]} if len(e[1]) < 4 else {e[1]}):
            n += 1
            oid = 'C11/gs1_ai/%s' % ai
            try:
                fmt, typ = props['format'], props['type']
                ml = gs1._max_length(fmt, typ)
                v = gs1_witness(fmt, typ)
                if ai in gs1._ai_validators:
                    # the element has its own validator: take a corpus number of that format
                    mod = __import__(gs1._ai_validators[ai], fromlist=['x'])
                    from .. import corpus
                    fixed = '..' not in fmt
                    cands = [c for c in corpus.valid_numbers(mod.__name__, 40) if mod.compact(c) == c and (len(c) == ml if fixed else len(c) <= ml)]
                    if not cands and fixed:
                        cands = [c.zfill(ml) for c in corpus.valid_numbers(mod.__name__, 40) if mod.compact(c) == c and len(c) <= ml and mod.is_valid(c.zfill(ml))]
                    v = cands[0] if cands else v
                enc = gs1.encode({ai: v})
                dec = gs1.info(enc)
                ok = list(dec.keys()) == [ai] and dec[ai] == v and len(enc) - len(ai) <= ml
            except Exception as ex:      # noqa: B902
                ok = False
                enc = 'raises %s: %s' % (type(ex).__name__, ex)
            if ok:
                rep.add(oid, 'exhaustive', 'eval', detail='%s/%s round-trips %r' % (props.get('format'), props.get('type'), v))
            else:
                rep.refuted(oid, 'stdnum.gs1_128', 'AI %s' % ai, 'application identifier %s (%s, %s) cannot be encoded and decoded' % (ai, props.get('format'), props.get('type')),
                            dict(function='stdnum.gs1_128:encode', registry='gs1_ai', input=repr({ai: v}), real=str(enc)[:200]), True)
    return n


def consumer_isbn(rep):
    import stdnum.isbn as isbn
    import stdnum.numdb as nd
    from stdnum import ean
    db = nd.get('isbn')
    n = 0
    bad = None
    for path, e in entries(db.prefixes):
        if len(path) != 3:
            continue
        n += 1
        for which in (1, 2):
            pre = ''.join(p[which] for p in path)
            body = (pre + '0' * 12)[:12]
            number = body + ean.calc_check_digit(body)
            parts = isbn.split(number)
            if len(parts) != 5 or ''.join(parts) != number or '' in parts[:4]:
                bad = (number, parts)
                break
        if bad:
            break
    if bad:
        rep.refuted('C11/isbn/five-parts', 'stdnum.isbn', 'five parts', 'ISBN range does not yield a five-part hyphenation: %r -> %r' % bad,
                    dict(function='stdnum.isbn:split', registry='isbn', input=bad[0], real=repr(bad[1])), True)
    else:
        rep.add('C11/isbn/five-parts', 'exhaustive', 'eval', detail='%d publisher ranges, both endpoints, split() gives five non-empty parts' % n)
    return n


def consumer_cfi(rep):
    """cfi.info() indexes found['a'] whenever the looked-up properties carry a value 'v': every value entry must be
    covered, at its level, by a range that names the attribute (the lookup merges both)"""
    import stdnum.numdb as nd
    db = nd.get('cfi')
    bad = []
    n = 0
    for path, e in entries(db.prefixes):
        if 'v' not in e[3]:
            continue
        n += 1
        number = ''.join(p[1] for p in path)
        got = db.info(number)
        props = got[len(path) - 1][1] if len(got) >= len(path) else {}
        if 'v' in props and 'a' not in props:
            bad.append(number)
    if bad:
        code = (bad[0] + 'XXXXXX')[:6]
        r = call_real('stdnum.cfi:info', [code])
        rep.refuted('C11/cfi/attributes', 'stdnum.cfi', 'cfi attribute', 'CFI value entry %s has no attribute name at its level' % bad[0],
                    dict(function='stdnum.cfi:info', registry='cfi', input=code, real=list(r[:2])), r[0] == 'raise' and r[1] == 'KeyError')
    else:
        rep.add('C11/cfi/attributes', 'exhaustive', 'eval', detail='%d value entries: the lookup of each also yields its attribute name' % n)
    return n


def check(prop, tier, args):
    rep = Report('C11', tier, 'other', './check C11 --tier %s' % tier, seed=int(os.environ.get('VERIF_SEED', '0') or 0))
    import stdnum.numdb as nd
    total_lines = 0
    total_entries = 0
    for name, path in dat_files():
        t0 = time.time()
        n, bad = wf_file(name, path)
        total_lines += n
        oid = 'C11/%s/well-formed' % name
        if bad:
            rep.refuted(oid, 'stdnum.numdb', 'wf %s' % name, 'registry %s.dat line %d: %s' % (name, bad[0][0], bad[0][1]),
                        dict(function='stdnum.numdb:read', registry=name, line=bad[0][0], problems=bad[:10]), True)
        else:
            rep.add(oid, 'exhaustive', 'eval', time.time() - t0, detail='%d lines' % n)
        t0 = time.time()
        try:
            db = nd.read(io.StringIO(open(path, encoding='utf-8').read()))
            ne, badr = reach(db, thorough=(tier == 'thorough'))
        except Exception as e:      # noqa: B902
            rep.refuted('C11/%s/readable' % name, 'stdnum.numdb', 'read %s' % name, 'registry %s.dat cannot be read: %s' % (name, e),
                        dict(function='stdnum.numdb:read', registry=name), True)
            continue
        total_entries += ne
        oid = 'C11/%s/reachable' % name
        if badr:
            rep.refuted(oid, 'stdnum.numdb', 'reach %s' % name, 'entry %s-%s of %s.dat is not returned when looking up %r' % (badr[0][1], badr[0][2], name, badr[0][0]),
                        dict(function='stdnum.numdb:NumDB.info', registry=name, input=badr[0][0], unreachable=len(badr)), True)
        else:
            rep.add(oid, 'exhaustive', 'eval', time.time() - t0, detail='%d entries, both endpoints' % ne)
    consumer_iban(rep)
    consumer_gs1(rep)
    consumer_isbn(rep)
    consumer_cfi(rep)
    rep.extra['lines'] = total_lines
    rep.extra['entries'] = total_entries
    rep.assumptions += ['finite data: the predicate is evaluated on every line / entry (exhaustive), not proved symbolically',
                        'banks / locations / tax offices / postal codes / OUI / IMSI: the consumer returns NumDB.info() properties unchanged, so generic reachability is the consumer witness']
    return rep.finish(explanation='exhaustive evaluation of the well-formedness predicate on %d lines and of reachability / consumer witnesses on %d entries of '
                      'the shipped registries, through the real reader and lookup' % (total_lines, total_entries), exhaustive=True)
