"""C16: GS1-128 decoding and encoding are mutually consistent.

 * codec lemmas, one per distinct (format, type) of gs1_ai.dat: decode(encode(v)) == v for every admitted v -
   str and int codecs symbolically (real _encode_value/_decode_value executed on symbolic values, every admitted
   length), date and decimal codecs by exhaustive evaluation of the real functions over their finite domains;
 * framing lemmas: the AI set is prefix-free; fixed-length elements are encoded at exactly their maximum length;
 * composition (info over encode for several identifiers, separator / parentheses variants): bounded - all ordered
   pairs of application identifiers with witness values (sampled in the quick tier), labelled bounded.
"""
import datetime
import decimal
import itertools
import os
import random
import re
import sys
import time
import z3

from .. import front, isets
from ..ctx import Raise, Unsupported
from ..interp import Func
from ..explore import explore_closure
from ..sym import FixedStr, tostr, str_eq, toz3, is_sym, Eq
from ..isets import ISet
from ..report import Report
from ..replay import call_real
from .c11 import gs1_witness, entries

GS1_CHARS = ISet([(0x21, 0x22), (0x25, 0x3f), (0x41, 0x5a), (0x5f, 0x5f), (0x61, 0x7a)])     # GS1 AI encodable character set 82


def ai_table():
    import stdnum.numdb as nd
    out = []
    for path, e in entries(nd.get('gs1_ai').prefixes):
        ais = [e[1]] if e[1] == e[2] else [str(x).zfill(len(e[1])) for x in range(int(e[1]), int(e[2]) + 1)]
        for ai in ais:
            out.append((ai, e[3]))
    return out


def lengths_of(fmt):
    """admitted element lengths of a str/int format"""
    parts = fmt.replace('[', '').replace(']', '').split('+')
    lo = hi = 0
    optional = '[' in fmt
    for i, p in enumerate(parts):
        m = re.match(r'^[NXYZ](\.\.)?([0-9]+)$', p)
        if not m:
            return None
        k = int(m.group(2))
        hi += k
        if not m.group(1) and not (optional and i > 0):
            lo += k
        elif m.group(1) and i == 0:
            lo += 1
    return max(lo, 1), hi


def codec_symbolic(rep, fmt, typ, padded=False):
    """padded: the lemma for a variable-length element written without a separator,
    decode(pad(encode(v))) == v and len(pad(encode(v))) == _max_length (what info() cuts off)"""
    import stdnum.gs1_128 as gs1
    enc = front.func_of(gs1._encode_value, Func)
    dec = front.func_of(gs1._decode_value, Func)
    pad = front.func_of(gs1._pad_value, Func)
    oid = 'C16/%s/%s/%s' % ('padded-codec' if padded else 'codec', typ, fmt)
    if padded:
        try:
            ml = gs1._max_length(fmt, typ)
        except Exception:      # noqa: B902
            rep.add(oid, 'undecided', detail='_max_length does not understand the format (C11 finding)')
            return
    t0 = time.time()
    rng = lengths_of(fmt)
    if rng is None:
        rep.add(oid, 'undecided', detail='format not understood by the check')
        return
    lo, hi = rng
    numeric = fmt.lstrip('[').startswith('N')
    alpha = isets.DIGITS if numeric and '+X' not in fmt else GS1_CHARS
    bad = None
    for n in ([hi] if typ == 'int' else range(lo, hi + 1)):      # int: one unknown below 10**hi covers every length
        def run(I, ctx, n=n):
            if typ == 'int':
                v = ctx.fresh_int('v')
                ctx.add(z3.And(v >= 0, v < 10 ** min(n, 18)))
                s = I.call(enc, [fmt, typ, v], {}, {}, enc.module)
                if padded:
                    s = I.call(pad, [fmt, typ, s], {}, {}, pad.module)
                    if not isinstance(s, (str, FixedStr)) or len(s) != ml:
                        return z3.BoolVal(False), v
                back = I.call(dec, [fmt, typ, s], {}, {}, dec.module)
                return toz3(Eq(back, v)), v
            chars = [ctx.fresh_char(alpha, 'v') for _ in range(n)]
            v = FixedStr(chars)
            s = I.call(enc, [fmt, typ, v], {}, {}, enc.module)
            if padded:
                s = I.call(pad, [fmt, typ, s], {}, {}, pad.module)
                if not isinstance(s, (str, FixedStr)) or len(s) != ml:
                    return z3.BoolVal(False), v
            back = I.call(dec, [fmt, typ, s], {}, {}, dec.module)
            c = str_eq(back, v) if isinstance(back, (str, FixedStr)) else False
            return toz3(c), v
        try:
            paths, status = explore_closure(run, time_limit=30)
        except (Unsupported, z3.Z3Exception) as u:
            rep.add(oid, 'undecided', 'z3', time.time() - t0, detail='outside the subset: %s' % u)
            return
        for ctx, r in paths:
            if isinstance(r, Raise):
                bad = (n, 'raises %s' % r.cls.__name__, None)
                break
            goal, v = r
            res, m = ctx.check_final(z3.Not(goal))
            if res == z3.sat:
                from ..explore import witness_string
                val = witness_string(ctx, v, m) if isinstance(v, FixedStr) else m.eval(v, model_completion=True).as_long()
                bad = (n, 'round trip differs', val)
                break
            if res == z3.unknown:
                rep.add(oid, 'undecided', 'z3', time.time() - t0, detail='solver unknown at length %d' % n)
                return
        if bad:
            break
    if bad is None:
        rep.add(oid, 'proved', 'z3', time.time() - t0, detail='decode(%sencode(v)%s) == v for every admitted v of length %d..%d'
                % ('pad(' if padded else '', ')' if padded else '', lo, hi))
    else:
        n, what, val = bad
        native = None
        if val is not None:
            try:
                e_ = gs1._encode_value(fmt, typ, val)
                native = gs1._decode_value(fmt, typ, gs1._pad_value(fmt, typ, e_) if padded else e_)
            except Exception as e:      # noqa: B902
                native = 'raises %s' % type(e).__name__
        pc = 'padded codec' if padded else 'codec'
        rep.refuted(oid, 'stdnum.gs1_128', '%s %s %s' % (pc, typ, fmt), '%s %s/%s: %s for a value of length %d' % (pc, typ, fmt, what, n),
                    dict(function='stdnum.gs1_128:_decode_value', fmt=fmt, type=typ, input=repr(val), real=repr(native), padded=padded),
                    val is not None and native != val)


def codec_dates(rep, fmts, tier):
    import stdnum.gs1_128 as gs1
    t0 = time.time()
    n = 0
    bad = None
    d0 = datetime.date(1950, 1, 1)
    days = [d0 + datetime.timedelta(days=i) for i in range(0, 36525 + 1)]
    for fmt in fmts:
        n6 = fmt in ('N6', 'N6..12', 'N6[+N6]')
        if n6:
            for d in days:
                n += 1
                s = gs1._encode_value(fmt, 'date', d)
                back = gs1._decode_value(fmt, 'date', s)
                # two-digit years: strptime maps 00-68 to 2000-2068 and 69-99 to 1969-1999
                want = d if 1969 <= d.year <= 2068 else None
                if want is not None and back != want:
                    bad = (fmt, d, s, back)
                    break
            # day 00: last day of the month, and the decoded value survives re-encoding
            for y in range(0, 100):
                for mth in range(1, 13):
                    n += 1
                    s = '%02d%02d00' % (y, mth)
                    try:
                        d = gs1._decode_value(fmt, 'date', s)
                        nxt = d + datetime.timedelta(days=1)
                        ok = nxt.day == 1 and d.month == mth and gs1._decode_value(fmt, 'date', gs1._encode_value(fmt, 'date', d)) == d
                    except Exception as e:      # noqa: B902
                        ok = False
                        d = 'raises %s' % type(e).__name__
                    if not ok:
                        bad = (fmt, s, d, None)
                        break
                if bad:
                    break
        else:
            step = 1 if tier == 'thorough' else 97
            for d in days[::step]:
                for hh, mm, ss in ((0, 0, 0), (13, 45, 0), (23, 59, 59), (10, 0, 0)):
                    if 'N8' not in fmt:
                        ss = 0
                    n += 1
                    v = datetime.datetime(d.year, d.month, d.day, hh, mm, ss)
                    if not (1969 <= d.year <= 2068):
                        continue
                    try:
                        s = gs1._encode_value(fmt, 'date', v)
                        back = gs1._decode_value(fmt, 'date', s)
                    except Exception as e:      # noqa: B902
                        back = 'raises %s' % type(e).__name__
                        s = None
                    if back != v:
                        bad = (fmt, v, s, back)
                        break
                if bad:
                    break
        oid = 'C16/codec/date/%s' % fmt
        if bad and bad[0] == fmt:
            rep.refuted(oid, 'stdnum.gs1_128', 'codec date %s' % fmt, 'date codec %s: %r encodes to %r and decodes to %r' % bad,
                        dict(function='stdnum.gs1_128:_decode_value', fmt=fmt, type='date', input=repr(bad[1]), real=repr(bad[3])), True)
            bad = None
        else:
            rep.add(oid, 'exhaustive', 'eval', time.time() - t0, detail='all dates 1969-2049 (+ day 00 for every year/month)' if n6 else 'date-times on the day grid')
    rep.extra['date_codec_evaluations'] = n


def codec_decimals(rep, fmts, tier):
    import stdnum.gs1_128 as gs1
    t0 = time.time()
    total = 0
    for fmt in fmts:
        base = fmt[3:] if fmt.startswith('N3+') else fmt
        var = base.startswith('N..')
        k = int(base[3:]) if var else int(base[1:])
        bad = None
        n = 0
        rnd = random.Random(k)
        # element texts: one digit (implied decimal places) followed by the digits
        if k <= 6 and (tier == 'thorough' or k <= 4):
            bodies = (str(i).zfill(k) for i in range(10 ** k))
        else:
            bodies = itertools.chain((str(i).zfill(k) for i in range(0, 2000)),
                                     (str(rnd.randrange(10 ** k)).zfill(k) for _ in range(20000 if tier == 'quick' else 400000)),
                                     ('9' * k, '0' * k, '1' + '0' * (k - 1)))
        for body in bodies:
            for places in range(0, 10):
                if places > len(body):
                    continue
                s = str(places) + body
                if fmt.startswith('N3+'):
                    s = s[0] + '978' + s[1:]
                n += 1
                try:
                    v = gs1._decode_value(fmt, 'decimal', s)
                    s2 = gs1._encode_value(fmt, 'decimal', v)
                    v2 = gs1._decode_value(fmt, 'decimal', s2)
                except Exception as e:      # noqa: B902
                    v2 = 'raises %s: %s' % (type(e).__name__, e)
                    v = None
                    s2 = None
                if v2 != v:
                    bad = (s, v, s2, v2)
                    break
            if bad:
                break
        total += n
        oid = 'C16/codec/decimal/%s' % fmt
        if bad:
            rep.refuted(oid, 'stdnum.gs1_128', 'codec decimal %s' % fmt, 'decimal codec %s: %r decodes to %r, re-encodes to %r, decodes to %r' % ((fmt,) + bad),
                        dict(function='stdnum.gs1_128:_encode_value', fmt=fmt, type='decimal', input=bad[0], real=repr(bad[3])), True)
        else:
            rep.add(oid, 'exhaustive' if (k <= 6 and (tier == 'thorough' or k <= 4)) else 'bounded', 'eval', time.time() - t0,
                    detail='%d element texts x implied decimal places 0-9: the decoded value survives encode/decode' % n)
    rep.extra['decimal_codec_evaluations'] = total


def framing(rep, table):
    import stdnum.gs1_128 as gs1
    t0 = time.time()
    ais = [a for a, p in table]
    clash = [(a, b) for a in ais for b in ais if a != b and b.startswith(a)]
    if clash:
        rep.refuted('C16/framing/prefix-free', 'stdnum.gs1_128', 'prefix-free', 'application identifier %s is a prefix of %s' % clash[0], dict(function='stdnum.gs1_128:info', input=clash[0][1]), False)
    else:
        rep.add('C16/framing/prefix-free', 'exhaustive', 'eval', time.time() - t0, detail='%d application identifiers, no identifier is a prefix of another' % len(ais))
    seen = set()
    for ai, p in table:
        key = (p.get('format'), p.get('type'), bool(p.get('fnc1')))
        if key in seen:
            continue
        seen.add(key)
        fmt, typ, fnc1 = key
        oid = 'C16/framing/%s/%s/%s' % (typ, fmt, 'variable' if fnc1 else 'fixed')
        try:
            ml = gs1._max_length(fmt, typ)
        except Exception as e:      # noqa: B902
            rep.add(oid, 'undecided', detail='_max_length does not understand the format (C11 finding)')
            continue
        vals = []
        if typ == 'int':
            vals = [0, 7, 10 ** ml - 1, 10 ** (ml - 1)] if ml < 19 else [7]
        elif typ == 'str':
            rng = lengths_of(fmt)
            if rng:
                vals = ['1' * rng[0], '1' * rng[1]] if fmt.lstrip('[').startswith('N') else ['A' * rng[0], 'A' * rng[1]]
        else:
            vals = [gs1_witness(fmt, typ)]
        bad = None
        for v in vals:
            try:
                s = gs1._encode_value(fmt, typ, v)
            except Exception as e:      # noqa: B902
                bad = (v, 'raises %s' % type(e).__name__)
                break
            if not fnc1 and '[' not in fmt and '..' not in fmt and len(s) != ml:
                bad = (v, 'fixed-length element encoded with %d characters, the parser takes %d' % (len(s), ml))
                break
            if len(s) > ml:
                bad = (v, 'encoded element longer than the maximum length')
                break
        if bad:
            ai0 = [a for a, p2 in table if (p2.get('format'), p2.get('type'), bool(p2.get('fnc1'))) == key][0]
            other = [a for a, p2 in table if not p2.get('fnc1') and a != ai0][0]
            demo = None
            try:
                d = {ai0: bad[0], other: gs1_witness(dict(table)[other]['format'], dict(table)[other]['type'])}
                demo = (repr(d), repr(gs1.info(gs1.encode(d))))
            except Exception as e:      # noqa: B902
                demo = (repr(bad[0]), 'raises %s' % type(e).__name__)
            rep.refuted(oid, 'stdnum.gs1_128', 'framing %s %s' % (typ, fmt), 'element %s/%s: %s (value %r)' % (typ, fmt, bad[1], bad[0]),
                        dict(function='stdnum.gs1_128:encode', fmt=fmt, type=typ, input=demo[0], real=demo[1]), True)
        else:
            rep.add(oid, 'exhaustive', 'eval', detail='boundary values of the format')


def composition(rep, table, tier):
    import stdnum.gs1_128 as gs1
    rnd = random.Random(int(os.environ.get('VERIF_SEED', '0') or 0))
    t0 = time.time()
    usable = []
    for ai, p in table:
        try:
            gs1._max_length(p['format'], p['type'])      # formats the library cannot size are C11 findings, not composition cases
            v = gs1_witness(p['format'], p['type'])
            if ai in gs1._ai_validators:
                from .. import corpus
                mod = __import__(gs1._ai_validators[ai], fromlist=['x'])
                ml = gs1._max_length(p['format'], p['type'])
                fixed = '..' not in p['format']
                c = [x for x in corpus.valid_numbers(mod.__name__, 40) if mod.compact(x) == x and (len(x) == ml if fixed else len(x) <= ml)]
                if not c and fixed:
                    c = [x.zfill(ml) for x in corpus.valid_numbers(mod.__name__, 40) if mod.compact(x) == x and len(x) <= ml and mod.is_valid(x.zfill(ml))]
                if not c:
                    continue
                v = c[0]
            gs1.encode({ai: v})
            usable.append((ai, v))
        except Exception:      # noqa: B902
            continue
    # variable-length text elements also with a value shorter than the maximum (the padded / separated case)
    props_ = dict(table)
    short = []
    for ai, v in usable:
        p = props_[ai]
        if p.get('fnc1') and p['type'] == 'str' and ai not in gs1._ai_validators and isinstance(v, str) and len(v) > 2:
            rng = lengths_of(p['format'])
            if rng and rng[0] < len(v):
                short.append((ai, v[:max(rng[0], len(v) // 2)]))
    pairs = [(a, b) for a in usable for b in usable if a[0] != b[0]]
    pairs_short = [(a, b) for a in short for b in usable if a[0] != b[0]]
    if tier == 'quick':
        pairs_short = rnd.sample(pairs_short, min(len(pairs_short), 800))
    if tier == 'quick':
        pairs = rnd.sample(pairs, min(len(pairs), 2500))
    n = 0
    bads = {}
    fmt_of = {ai: (p['format'], p['type']) for ai, p in table}

    def blame(d, back):
        if isinstance(back, dict):
            for k_ in sorted(d):
                if back.get(k_) != d[k_]:
                    return 'element %s/%s is not read back' % fmt_of[k_]
            return 'extra elements read back'
        return str(back).split(':')[0]
    for (a, va), (b, vb) in pairs + pairs_short:
        d = {a: va, b: vb}
        for sep in ('', '\x1d', '[FNC1]', '~1'):
            for par in (False, True):
                n += 1
                try:
                    s = gs1.encode(d, sep, par)
                    back = gs1.info(s, sep)
                    v = gs1.validate(s, sep)
                    v2 = gs1.validate(v, sep)
                    ok = back == d and v2 == v and gs1.info(v, sep) == d
                    if back == d and not ok:
                        back = 'validated form is not stable'
                except Exception as e:      # noqa: B902
                    ok = False
                    back = 'raises %s: %s' % (type(e).__name__, str(e)[:60])
                    s = None
                if not ok:
                    key = 'composition: %s (separator %r)' % (blame(d, back), sep)
                    bads.setdefault(key, (d, sep, par, s, back))
    # element strings written by hand in either identifier order (encode() always sorts), with a separator after every
    # variable-length element and optionally a leading separator
    props = dict(table)
    hand = 0
    for (a, va), (b, vb) in pairs[:1500 if tier == 'quick' else len(pairs)]:
        for sep in ('\x1d', '[FNC1]', '~1'):
            try:
                ea = gs1._encode_value(props[a]['format'], props[a]['type'], va)
                eb = gs1._encode_value(props[b]['format'], props[b]['type'], vb)
            except Exception:      # noqa: B902
                continue
            if not props[a].get('fnc1') and len(ea) != gs1._max_length(props[a]['format'], props[a]['type']):
                continue
            body = a + ea + (sep if props[a].get('fnc1') else '') + b + eb
            for s_ in (body, sep + body):
                hand += 1
                d = {a: va, b: vb}
                try:
                    back = gs1.info(s_, sep)
                except Exception as e:      # noqa: B902
                    back = 'raises %s: %s' % (type(e).__name__, str(e)[:60])
                if back != d:
                    key = 'composition: hand-built element string with separator %r: %s' % (sep, blame(d, back))
                    bads.setdefault(key, (d, sep, 'hand-built %r' % s_, s_, back))
    triples = 0
    for _ in range(300 if tier == 'quick' else 20000):
        k = rnd.randint(3, 5)
        items = rnd.sample(usable, k)
        d = dict(items)
        sep = rnd.choice(['', '\x1d', '[FNC1]', '~1'])
        triples += 1
        try:
            s = gs1.encode(d, sep, rnd.random() < .5)
            back = gs1.info(s, sep)
            ok = back == d and gs1.validate(gs1.validate(s, sep), sep) == gs1.validate(s, sep)
        except Exception as e:      # noqa: B902
            ok = False
            back = 'raises %s' % type(e).__name__
        if not ok:
            key = 'composition: %s (separator %r)' % (blame(d, back), sep)
            bads.setdefault(key, (d, sep, None, None, back))

    def still(k_):
        w = k_['witness']
        if w.get('encoded') and str(w.get('parentheses', '')).startswith('hand-built'):
            d_ = eval(w['input'], dict(datetime=datetime, Decimal=decimal.Decimal))
            try:
                return gs1.info(w['encoded'], w.get('separator') or '') != d_
            except Exception:      # noqa: B902
                return True
        d_ = eval(w['input'], dict(datetime=datetime, Decimal=decimal.Decimal))
        try:
            return gs1.info(gs1.encode(d_, w.get('separator') or '', bool(w.get('parentheses'))), w.get('separator') or '') != d_
        except Exception:      # noqa: B902
            return True
    for key, bad in sorted(bads.items()):
        rep.refuted('C16/' + key, 'stdnum.gs1_128', key, 'info(encode(%r, separator=%r, parentheses=%r)) = %r' % (bad[0], bad[1], bad[2], bad[4]),
                    dict(function='stdnum.gs1_128:info', input=repr(bad[0]), separator=bad[1], parentheses=bad[2], encoded=bad[3], real=repr(bad[4])), True, still)
    rep.add('C16/composition/pairs', 'bounded', 'eval', time.time() - t0, detail='%d (pair, separator, parentheses) combinations, %d 3-5-tuples through the real encode/info/validate and %d hand-built strings (bounded)' % (n, triples, hand))


def check(prop, tier, args):
    rep = Report('C16', tier, 'other', './check C16 --tier %s' % tier, seed=int(os.environ.get('VERIF_SEED', '0') or 0))
    isets.warm()
    table = ai_table()
    rep.functions.update(['stdnum.gs1_128:_encode_value', 'stdnum.gs1_128:_decode_value', 'stdnum.gs1_128:_max_length', 'stdnum.gs1_128:encode',
                          'stdnum.gs1_128:info', 'stdnum.gs1_128:validate'])
    kinds = {}
    for ai, p in table:
        kinds.setdefault(p.get('type'), set()).add(p.get('format'))
    for fmt in sorted(kinds.get('str', ())):
        codec_symbolic(rep, fmt, 'str')
    for fmt in sorted(kinds.get('int', ())):
        codec_symbolic(rep, fmt, 'int')
    # variable-length elements written without a separator are padded by encode() and cut at _max_length by info()
    variable = sorted({(p.get('type'), p.get('format')) for ai, p in table if p.get('fnc1')})
    for typ, fmt in variable:
        if typ in ('str', 'int'):
            codec_symbolic(rep, fmt, typ, padded=True)
    codec_dates(rep, sorted(kinds.get('date', ())), tier)
    codec_decimals(rep, sorted(kinds.get('decimal', ())), tier)
    framing(rep, table)
    composition(rep, table, tier)
    # the empty element string
    r = call_real('stdnum.gs1_128:validate', [''])
    v = call_real('stdnum.gs1_128:is_valid', [''])
    rep.sample(dict(kind='codec lemma', formats={k: sorted(v_) for k, v_ in kinds.items()}))
    rep.assumptions += ['values admitted by X formats range over the GS1 AI encodable character set 82; N formats over ASCII digits',
                        'two-digit years follow strptime (69-99 -> 19xx, 00-68 -> 20xx)',
                        'composition of several elements is bounded (pairs / sampled tuples), not proved']
    return rep.finish(explanation='codec lemmas per (format, type): str/int symbolically for every admitted length, date/decimal by exhaustive or sampled '
                      'evaluation of the real functions; framing lemmas on the registry; composition bounded')
