"""CPython cross-check of the encoding (DESIGN 2.2): the executor is run in concrete mode (a concrete str as input, so
every branch is decided by Python values) on corpus numbers, their single-edit neighbours and hostile strings, and must
agree with the real function on the outcome (returned value or exception class).  A disagreement is a checker error -
it says nothing about the repository.   Usage: ./check crosscheck [module ...]"""
import importlib
import random
import sys
import time

from . import front, isets, absstr, corpus, pool
from .ctx import Ctx, Raise, Unsupported, Infeasible, Restart
from .interp import Interp, Func
from .sym import FixedStr, AbstractStr, conc
from .replay import call_real

HOSTILE = ['', ' ', '\n', '0', '-', 'A' * 41, '١٢٣', '１２', '²', 'ß', '1\n', ' 1 ', 'x' * 12, '1' * 12, 'é1']


def concrete_run(fn, x, kwargs=None):
    ctx = Ctx((), 0)
    ctx.long_bound = 40
    I = Interp(ctx)
    try:
        v = I.call(fn, [x], dict(kwargs or {}), {}, fn.module)
        if isinstance(v, AbstractStr):
            v = I.materialise(v)
        if isinstance(v, FixedStr):
            v = conc(v)
        return ('return', v)
    except Raise as r:
        return ('raise', r.cls.__name__)


def _task(modname):
    mod = importlib.import_module(modname)
    rnd = random.Random(0)
    fn = front.func_of(mod.validate, Func)
    inputs = list(HOSTILE)
    alpha = '0123456789ABCDEFGHIJKLMNOPQRSTUVWXYZ -./'
    for x in corpus.valid_numbers(modname, 8):
        inputs.append(x)
        for _ in range(6):
            if x:
                i = rnd.randrange(len(x))
                inputs.append(x[:i] + rnd.choice(alpha) + x[i + 1:])
                inputs.append(x[:i] + x[i + 1:])
    n = bad = unsup = 0
    examples = []
    for x in inputs:
        real = call_real(modname + ':validate', [x])
        try:
            mine = concrete_run(fn, x)
        except (Unsupported, Restart, Infeasible) as u:
            unsup += 1
            continue
        except Exception as e:      # noqa: B902
            mine = ('crash', '%s: %s' % (type(e).__name__, str(e)[:80]))
        n += 1
        r = ('return', real[1]) if real[0] == 'return' else ('raise', real[1])
        if mine != r:
            bad += 1
            if len(examples) < 3:
                examples.append((x, mine, r))
    return dict(module=modname, compared=n, disagreements=bad, unsupported=unsup, examples=examples)


def main(modules=None):
    isets.warm()
    absstr.table_lemmas()
    mods = modules or front.module_names()
    t0 = time.time()
    res = pool.pool_map(_task, mods, None, 300)
    tot = bad = unsup = 0
    for item, r, secs in sorted(res, key=lambda x: x[0]):
        if 'crash' in r:
            print('crosscheck %-40s crashed: %s' % (item, r['crash'][:100]))
            continue
        tot += r['compared']
        bad += r['disagreements']
        unsup += r['unsupported']
        for x, mine, real in r['examples']:
            print('DISAGREEMENT %s validate(%r): executor %r, CPython %r' % (item, x, mine, real))
    print('crosscheck: %d executions compared over %d modules, %d disagreements, %d outside the subset, %.1fs' % (tot, len(mods), bad, unsup, time.time() - t0))
    return 2 if bad else 0
