"""./check <property> [--tier quick|thorough] [--replay path] [module ...]"""
import argparse
import importlib
import json
import os
import sys

PROPS = {
    'C01': 'vfamily', 'C02': 'vfamily', 'C15': 'vfamily', 'C14': 'c14', 'C06': 'c06', 'C10': 'c10', 'C03': 'c03', 'C04': 'c04', 'C05': 'c05', 'C18': 'c18', 'C11': 'c11', 'C13': 'c13', 'C09': 'c09', 'C12': 'c12', 'C17': 'c17', 'C16': 'c16', 'C07': 'c07', 'C08': 'c08',
}


def main(argv=None):
    ap = argparse.ArgumentParser()
    ap.add_argument('prop')
    ap.add_argument('--tier', default=os.environ.get('VERIF_TIER') or 'quick', choices=['quick', 'thorough'])
    ap.add_argument('--replay')
    ap.add_argument('modules', nargs='*')
    args = ap.parse_args(argv)
    if args.replay:
        from . import replaycli
        return replaycli.main(args.prop, args.replay)
    if args.prop == 'crosscheck':
        from . import crosscheck
        return crosscheck.main(args.modules or None)
    if args.prop not in PROPS:
        print('no check for %s' % args.prop)
        return 2
    mod = importlib.import_module('pyvc.props.' + PROPS[args.prop])
    try:
        return mod.check(args.prop, args.tier, args)
    except Exception as e:      # noqa: B902
        import traceback
        traceback.print_exc()
        print('CHECKER-ERROR: %s: %s' % (type(e).__name__, e))
        return 2


if __name__ == '__main__':
    sys.exit(main())
