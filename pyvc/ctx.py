"""Path context: decision prefix, unary interval domains per character variable, z3 solver for the rest."""
import z3

from .isets import ISet, FULL, EMPTY
from .sym import U, UAnd, UOr, toz3, is_sym, is_charvar, mk_charvar, _CHARVARS


class Raise(Exception):
    """the interpreted code raises an exception of class cls"""

    def __init__(self, cls, why='', site=None, approx=False):
        self.cls, self.why, self.site, self.approx = cls, why, site, approx


class Unsupported(Exception):
    """construct outside the modelled subset: the function is undecided, never a violation"""


class Infeasible(Exception):
    pass


class Restart(Exception):
    """exploration must be restarted with another primary string"""

    def __init__(self, primary):
        self.primary = primary


class ReturnSig(Exception):
    def __init__(self, v):
        self.v = v


class BreakSig(Exception):
    pass


class ContinueSig(Exception):
    pass


SOLVER_TIMEOUT_MS = 3000
FINAL_TIMEOUT_MS = 20000
FORK_TRACE = None


def expr_charvars(e, acc, seen):
    """collect ids of char variables occurring in z3 expr e"""
    stack = [e]
    while stack:
        x = stack.pop()
        i = x.get_id()
        if i in seen:
            continue
        seen.add(i)
        if z3.is_const(x):
            if i in _CHARVARS:
                acc.add(i)
        else:
            stack.extend(x.children())


class Ctx:
    def __init__(self, decisions=(), cur_n=0, timeout_ms=None):
        self.s = z3.Solver()
        self.s.set('timeout', timeout_ms or SOLVER_TIMEOUT_MS)
        self.decisions = list(decisions)
        self.pos = 0
        self.new = []               # alternative decision prefixes discovered on this run
        self.nfresh = 0
        self.checks = 0
        self.fast = 0
        self.unknowns = 0
        self.depth = 0
        self.today = None
        self.dom = {}               # char var id -> (var, ISet)
        self.synced = {}
        self.relvars = set()        # char vars mentioned in solver assertions
        self._seen = set()
        self.cur_n = cur_n          # length of the primary string ('long' for the tail)
        self.primary = None         # the materialised primary (FixedStr / LongStr)
        self.primary_params = None
        self.force_primary = None
        self.approx = False         # an over-approximating abstraction took part in this path
        self.approx_why = []
        self.events = []            # (site, exc class name, status) of partial operations
        self.hints = {}             # tuple(char ids) -> candidate concrete strings
        self.heap = {}              # id(module-level mutable) -> per-path copy
        self.notes = []
        self.input = None           # whatever the driver wants to remember (input objects)
        self.sat_checked = False
        self.where = None
        self.uclauses = []          # disjunctions of unary literals, kept out of the solver until needed
        self.upushed = 0

    # -- variables
    def fresh_int(self, name='v'):
        self.nfresh += 1
        return z3.Int('%s%d' % (name, self.nfresh))

    def fresh_bool(self, name='b'):
        self.nfresh += 1
        return z3.Bool('%s%d' % (name, self.nfresh))

    def fresh_char(self, dom=FULL, name='c'):
        self.nfresh += 1
        v = mk_charvar('%s%d' % (name, self.nfresh))
        self.dom[v.get_id()] = (v, dom)
        return v

    def dom_of(self, v):
        return self.dom.get(v.get_id(), (v, FULL))[1]

    def char_value(self, c):
        """int if the char is concrete or its domain is a singleton (and it is not relationally tied)"""
        if isinstance(c, int):
            return c
        if is_charvar(c):
            d = self.dom_of(c)
            if len(d.iv) == 1 and d.iv[0][0] == d.iv[0][1]:
                return d.iv[0][0]
        return None

    def mark_approx(self, why):
        self.approx = True
        if why not in self.approx_why:
            self.approx_why.append(why)

    # -- solver
    def add(self, c):
        """add a relational constraint"""
        c = toz3(c)
        if isinstance(c, bool):
            if not c:
                raise Infeasible()
            return
        expr_charvars(c, self.relvars, self._seen)
        self.s.add(c)
        self.sat_checked = False

    def propagate(self):
        """unit propagation over the unary clauses"""
        changed = True
        while changed:
            changed = False
            keep = []
            for cl in self.uclauses:
                alive = [u for u in cl if not self.dom_of(u.v).disjoint(u.s)]
                if not alive:
                    raise Infeasible()
                if any(self.dom_of(u.v).subset(u.s) for u in alive):
                    if cl[-1] is not None and getattr(cl, 'pushed', False):
                        pass
                    continue
                if len(alive) == 1:
                    u = alive[0]
                    self.dom[u.v.get_id()] = (u.v, self.dom_of(u.v).inter(u.s))
                    changed = True
                    continue
                keep.append(alive if len(alive) != len(cl) else cl)
            if len(keep) != len(self.uclauses) or changed:
                self.uclauses = keep
                self.upushed = 0       # clauses are re-pushed (weaker forms already in the solver stay valid)

    def sync(self, extra=()):
        need = set(self.relvars)
        if extra:
            seen = set()
            for e in extra:
                if isinstance(e, z3.ExprRef):
                    expr_charvars(e, need, seen)
        grew = True
        pushed = getattr(self, '_pushed_clauses', None)
        if pushed is None:
            pushed = self._pushed_clauses = set()
        while grew:
            grew = False
            for cl in self.uclauses:
                key = tuple((u.v.get_id(), u.s.iv) for u in cl)
                if key in pushed:
                    continue
                if any(u.v.get_id() in need for u in cl):
                    pushed.add(key)
                    self.s.add(z3.Or([u.z3() for u in cl]))
                    for u in cl:
                        if u.v.get_id() not in need:
                            need.add(u.v.get_id())
                            self.relvars.add(u.v.get_id())
                            grew = True
        for k in need:
            ent = self.dom.get(k)
            if ent is None:
                continue
            v, s = ent
            if self.synced.get(k) is not s:
                if s.iv != FULL.iv:
                    self.s.add(U(v, s).z3())
                self.synced[k] = s

    def check_final(self, *extra):
        """a verdict-relevant check: incremental first, then one-shot in a fresh solver (stronger preprocessing)"""
        if self.uclauses:
            # a model taken from this check is turned into a witness: the clauses kept in the unary store must bind it too
            for cl in self.uclauses:
                for u in cl:
                    self.relvars.add(u.v.get_id())
        r = self.check(*extra)
        if r != z3.unknown:
            return r, self.last_model
        s2 = z3.Solver()
        s2.set('timeout', FINAL_TIMEOUT_MS)
        s2.add(self.s.assertions())
        for c in extra:
            s2.add(toz3(c))
        r = s2.check()
        if r == z3.sat:
            return r, s2.model()
        return r, None

    def check(self, *extra):
        self.checks += 1
        extra = [toz3(c) for c in extra]
        self.sync(extra)
        if extra:
            self.s.push()
            for c in extra:
                self.s.add(c)
            r = self.s.check()
            self.last_model = self.s.model() if r == z3.sat else None
            self.s.pop()
        else:
            r = self.s.check()
            self.last_model = self.s.model() if r == z3.sat else None
        if r == z3.unknown:
            self.unknowns += 1
        return r

    def feasible(self, c):
        return self.check(c) != z3.unsat

    def entails(self, c):
        """True iff the path condition implies c (unknown counts as not entailed)"""
        if isinstance(c, bool):
            return c
        if isinstance(c, UOr):
            if any(self.dom_of(u.v).subset(u.s) for u in c.items):
                return True
        if isinstance(c, (U, UAnd)):
            items = c.items if isinstance(c, UAnd) else [c]
            if all(self.dom_of(u.v).subset(u.s) for u in items):
                return True
            if not any(u.v.get_id() in self.relvars for u in items):
                return False
        return self.check_final(z3.Not(toz3(c)))[0] == z3.unsat

    def restrict(self, u):
        k = u.v.get_id()
        s = self.dom_of(u.v).inter(u.s)
        if s.empty():
            raise Infeasible()
        self.dom[k] = (u.v, s)
        self.sat_checked = False
        if self.uclauses:
            self.propagate()

    def assume(self, c):
        """add c to the path condition without branching"""
        if isinstance(c, bool):
            if not c:
                raise Infeasible()
            return
        if isinstance(c, U):
            self.restrict(c)
        elif isinstance(c, UAnd):
            for u in c.items:
                self.restrict(u)
        elif isinstance(c, UOr):
            self.uclauses.append(list(c.items))
            self.propagate()
        else:
            self.add(c)

    def _take(self, ft, ff):
        if self.pos < len(self.decisions):
            d = self.decisions[self.pos]
        else:
            if ft and ff:
                d = bool(getattr(self, 'prefer', True))      # second-pass explorations take the other side first
                self.new.append(self.decisions[:self.pos] + [not d])
                if FORK_TRACE is not None:
                    k = self.where() if self.where else '?'
                    FORK_TRACE[k] = FORK_TRACE.get(k, 0) + 1
            elif ft:
                d = True
            elif ff:
                d = False
            else:
                raise Infeasible()
            self.decisions.append(d)
        self.pos += 1
        return d

    def branch(self, c):
        if isinstance(c, bool):
            return c
        if isinstance(c, UOr):
            return not self.branch(c.neg())
        if isinstance(c, (U, UAnd)):
            items = c.items if isinstance(c, UAnd) else [c]
            ft = all(not self.dom_of(u.v).disjoint(u.s) for u in items)
            ff = any(not self.dom_of(u.v).subset(u.s) for u in items)
            rel = any(u.v.get_id() in self.relvars for u in items) and not getattr(self, 'lazy_rel', False)
            if not rel or not (ft and ff):
                self.fast += 1
                if self.pos < len(self.decisions):
                    d = self.decisions[self.pos]
                    self.pos += 1
                else:
                    d = self._take(ft, ff)
                if d:
                    for u in items:
                        self.restrict(u)
                else:
                    viol = [u for u in items if not self.dom_of(u.v).subset(u.s)]
                    if len(viol) == 1:
                        self.restrict(U(viol[0].v, viol[0].s.compl()))
                    elif not viol:
                        raise Infeasible()
                    else:
                        self.uclauses.append([U(u.v, u.s.compl()) for u in viol])
                return d
            cz = c.z3()
        else:
            cz = z3.simplify(c)
            if z3.is_true(cz):
                return True
            if z3.is_false(cz):
                return False
        if self.pos < len(self.decisions):
            d = self.decisions[self.pos]
            self.pos += 1
        else:
            ft = self.feasible(cz)
            ff = True if not ft else self.feasible(z3.Not(cz))
            d = self._take(ft, ff)
        if isinstance(c, (U, UAnd)) and d:
            for u in (c.items if isinstance(c, UAnd) else [c]):
                self.restrict(u)
        elif isinstance(c, U) and not d:
            self.restrict(U(c.v, c.s.compl()))
        else:
            self.add(cz if d else z3.Not(cz))
        return d

    def require(self, c, exc, why='', site=None):
        """partial operation: precondition c, raises exc otherwise"""
        ok = self.branch(c)
        if not ok:
            raise Raise(exc, why, site)
        return True

    # -- models
    def model(self):
        r, m = self.check_final()
        if r != z3.sat:
            return None
        return m if m is not None else self.s.model()

    def eval_char(self, m, c):
        if isinstance(c, int):
            return c
        v = m.eval(c, model_completion=False)
        if z3.is_int_value(v) and (not is_charvar(c) or self.dom_of(c).contains(v.as_long())):
            return v.as_long()
        # unconstrained in the solver: pick from the domain
        if is_charvar(c):
            return self.dom_of(c).pick(prefer=(48, 65))
        v = m.eval(c, model_completion=True)
        return v.as_long()

    def clone(self):
        """a new context with the same path condition (fresh decision prefix)"""
        c = Ctx((), self.cur_n)
        c.s.add(self.s.assertions())
        c.dom = dict(self.dom)
        c.synced = dict(self.synced)
        c.relvars = set(self.relvars)
        c._seen = set(self._seen)
        c.nfresh = self.nfresh + 100000
        c.today = self.today
        c.approx = self.approx
        c.approx_why = list(self.approx_why)
        c.hints = dict(self.hints)
        c.uclauses = list(self.uclauses)
        c._pushed_clauses = set(getattr(self, '_pushed_clauses', ()))
        c.primary = self.primary
        c.primary_params = self.primary_params
        c.lazy_rel = getattr(self, 'lazy_rel', False)
        c.soft = list(getattr(self, 'soft', []))
        return c
