"""./check <property> --replay <file>: re-run one recorded counterexample on the real code of the working tree and print
what happens (the obligation it refutes is named in the file)."""
import json
import sys

from . import front
from .replay import call_real


def main(prop, path):
    with open(path) as f:
        d = json.load(f)
    print('property   :', d.get('property', prop))
    print('obligation :', d.get('obligation') or d.get('key'))
    print('statement  :', d.get('what'))
    if d.get('note'):
        print('note       :', d['note'])
    fn = d.get('function')
    if d.get('query') is not None:
        from .props.c18 import call_app
        wsgi = front.load_wsgi()
        r = call_app(wsgi, d['query'], bool(d.get('ajax')))
        print('request    : %r (ajax=%s)' % (d['query'], bool(d.get('ajax'))))
        print('response   :', r[0] if r[0] != 'EXC' else 'EXCEPTION %s: %s' % (r[1], r[2]))
        return 0
    if not fn or ':' not in fn:
        print('recorded   :', json.dumps({k: v for k, v in d.items() if k not in ('what', 'note')}, default=repr)[:2000])
        return 0
    args = [d.get('input')]
    if 'deletechars' in d:
        args.append(d['deletechars'])
    kwargs = d.get('opts') or {}
    if fn.endswith(':format') and d.get('fopts'):
        kwargs = d['fopts']
    try:
        r = call_real(fn, args, kwargs, d.get('today'))
    except Exception as e:      # noqa: B902
        print('cannot call %s: %s' % (fn, e))
        return 0
    print('call       : %s(%r%s)%s' % (fn, args[0], ''.join(', %s=%r' % kv for kv in kwargs.items()), ' with system date %s' % (d['today'],) if d.get('today') else ''))
    print('result     :', ('returns %r' % (r[1],)) if r[0] == 'return' else 'raises %s: %s' % (r[1], r[2]))
    if d.get('altered') is not None:
        r2 = call_real(fn, [d['altered']], kwargs, d.get('today'))
        print('altered    : %s(%r) %s' % (fn, d['altered'], ('returns %r' % (r2[1],)) if r2[0] == 'return' else 'raises %s' % r2[1]))
    if r[0] == 'return' and fn.endswith(':validate') and isinstance(r[1], str):
        r3 = call_real(fn, [r[1]], kwargs, d.get('today'))
        print('again      : %s(%r) %s' % (fn, r[1], ('returns %r' % (r3[1],)) if r3[0] == 'return' else 'raises %s' % r3[1]))
    if d.get('real') is not None:
        print('recorded   :', str(d['real'])[:500])
    return 0
