"""Contracts of shared repository functions, used instead of their bodies at every call site.

Each is verified against the body elsewhere (named in the docstring) or listed as an assumption in the evidence.
"""
import sys
import types

from .interp import contract, Func
from .sym import FixedStr, LongStr, AbstractStr, Opaque, is_sym
from .ctx import Raise, Unsupported


@contract('stdnum.util', 'clean')
def _clean(I, fn, args, kwargs):
    """clean(number, D) == delete_D(map_g(number)); non-iterables / non-str items -> InvalidFormat.
    Verified against the bodies of clean/_clean_chars by the C14 check (comprehension rule + table)."""
    return I.do_clean(args, kwargs)


@contract('stdnum.util', 'get_cc_module')
def _get_cc_module(I, fn, args, kwargs):
    """concrete country code: the real function (an import); symbolic: fork over the candidates"""
    cc = args[0] if args else kwargs['cc']
    name = args[1] if len(args) > 1 else kwargs['name']
    cc = I.need_concrete(cc, 'country code')
    name = I.need_concrete(name, 'module name')
    if not isinstance(cc, str):
        return NotImplemented
    return I.native(fn.pyfunc, [cc, name], {})


# ---------------------------------------------------------------------------------------------- numdb
def _cylinders(low, high):
    """the set {x : low <= x <= high, len(x) == len(low)} (lexicographic, equal lengths) as a union of products of
    per-character intervals"""
    from .isets import MAXCP
    n = len(low)
    lo = [ord(c) for c in low]
    hi = [ord(c) for c in high]
    if lo > hi:
        return []
    out = []
    k = 0
    while k < n and lo[k] == hi[k]:
        k += 1
    pre = [(c, c) for c in lo[:k]]
    if k == n:
        return [pre]
    # first differing position k: lo[k] < hi[k]
    if k == n - 1:
        return [pre + [(lo[k], hi[k])]]
    # middle block: lo[k] < x[k] < hi[k], rest free
    if lo[k] + 1 <= hi[k] - 1:
        out.append(pre + [(lo[k] + 1, hi[k] - 1)] + [(0, MAXCP)] * (n - k - 1))
    # x[k] == lo[k], rest >= lo[k+1:]
    cur = pre + [(lo[k], lo[k])]
    for j in range(k + 1, n):
        if j == n - 1:
            out.append(cur + [(lo[j], MAXCP)])
        else:
            if lo[j] < MAXCP:
                out.append(cur + [(lo[j] + 1, MAXCP)] + [(0, MAXCP)] * (n - j - 1))
            cur = cur + [(lo[j], lo[j])]
    # x[k] == hi[k], rest <= hi[k+1:]
    cur = pre + [(hi[k], hi[k])]
    for j in range(k + 1, n):
        if j == n - 1:
            out.append(cur + [(0, hi[j])])
        else:
            if hi[j] > 0:
                out.append(cur + [(0, hi[j] - 1)] + [(0, MAXCP)] * (n - j - 1))
            cur = cur + [(hi[j], hi[j])]
    return out


def spec_find(I, s, prefixes, budget):
    """the declarative meaning of NumDB._find (DESIGN §C10) on a FixedStr; C10 proves the body equal to it"""
    from .sym import And, in_set, simp, tostr
    from .isets import ISet
    ctx = I.ctx
    s = tostr(s)
    n = len(s)
    if n == 0:
        return []
    budget[0] -= len(prefixes)
    if budget[0] < 0:
        raise Unsupported('registry too large to enumerate for a symbolic number (contract needed)')
    lengths = sorted(set(e[0] for e in prefixes if e[0] <= n))
    for l in lengths:
        matched = []
        for e in prefixes:
            if e[0] != l:
                continue
            hit = False
            for cyl in _cylinders(e[1], e[2]):
                c = And(*[in_set(ch, ISet([iv])) for ch, iv in zip(s.chars[:l], cyl)])
                if c is False:
                    continue
                if c is True or ctx.branch(c):
                    hit = True
                    break
            if hit:
                matched.append(e)
        if matched:
            props = {}
            children = []
            for e in matched:
                props.update(e[3])
                children.extend(e[4])
            return [(simp(FixedStr(s.chars[:l])), props)] + spec_find(I, FixedStr(s.chars[l:]), children, budget)
    return [(simp(s), {})]


def numdb_info(I, db, number):
    if isinstance(number, AbstractStr):
        number = I.materialise(number)
    number = I.norm_str(number)
    if isinstance(number, str):
        return I.native(db.info, [number], {})
    if isinstance(number, FixedStr):
        return spec_find(I, number, db.prefixes, [I.inline_numdb_limit])
    if isinstance(number, LongStr):
        raise Unsupported('registry lookup of a long string')
    if number is None or isinstance(number, int) or is_sym(number):
        raise Raise(TypeError, 'registry lookup of a non-string')
    raise Unsupported('registry lookup of %r' % type(number).__name__)


@contract('stdnum.numdb', 'NumDB._find')
def _find(I, fn, args, kwargs):
    number, prefixes = args
    number = I.norm_str(number)
    if isinstance(number, str):
        return NotImplemented
    if isinstance(number, FixedStr):
        return spec_find(I, number, prefixes, [I.inline_numdb_limit])
    return NotImplemented


@contract('stdnum.numdb', 'get')
def _numdb_get(I, fn, args, kwargs):
    """the registry named by a concrete name, read by the real reader (C10/C11 tie the reader to the file text);
    C13 proves the cache returns read(resource(name))"""
    name = I.need_concrete(args[0], 'registry name')
    return I.native(fn.pyfunc, [name], {})


def _object_method(self, obj, name, args, kwargs):
    import stdnum.numdb as nd
    if isinstance(obj, nd.NumDB):
        if name == 'info':
            return numdb_info(self, obj, args[0])
        if name == 'split':
            return [p for p, _ in numdb_info(self, obj, args[0])]
    return NotImplemented


from .interp import Interp
Interp.object_method = _object_method


# ---------------------------------------------------------------------------------------------- ISO 7064 Mod 97-10
@contract('stdnum.iso7064.mod_97_10', 'checksum')
def _mod97_checksum(I, fn, args, kwargs):
    """checksum(s) == int(''.join(str(int(x, 36)) for x in s)) % 97, computed as the Horner residue
    acc' = (acc * (10 if v < 10 else 100) + v) % 97 over v = int(x, 36).
    The equality of the two formulations for every length is lemma `mod97_simulation` of the C06 check."""
    import z3
    from .sym import tostr, FixedStr, LongStr, AbstractStr
    ctx = I.ctx
    number = args[0]
    if isinstance(number, AbstractStr):
        number = I.materialise(number)
    number = I.norm_str(number)
    if isinstance(number, str):
        return NotImplemented
    if isinstance(number, LongStr):
        if not ctx.branch(ctx.fresh_bool('mod97ok')):
            raise Raise(ValueError, 'int(x, 36) of a character that is no base-36 digit', approx=True)
        from .isets import ISet, cls
        I.long_fact(number, cls('decimal').union(ISet([(65, 90), (97, 122)])))
        ctx.require(number.L * 2 <= 4300, ValueError, 'int(): more than 4300 digits')
        r = ctx.fresh_int('ck97')
        ctx.add(z3.And(r >= 0, r < 97))
        ctx.mark_approx('Mod 97-10 of a string of unbounded length')
        return r
    if not isinstance(number, FixedStr):
        if number is None or isinstance(number, int) or is_sym(number):
            raise Raise(TypeError, 'object is not iterable')
        return NotImplemented
    if len(number) == 0:
        raise Raise(ValueError, "int('')")
    memo = ctx.__dict__.setdefault('memo', {})
    key = ('mod97',) + tuple(c if isinstance(c, int) else c.get_id() for c in number.chars)
    if key in memo:
        return memo[key]
    acc = 0
    for ch in number.chars:
        v = I.to_int(FixedStr([ch]), 36)
        if isinstance(v, int):
            m = 10 if v < 10 else 100
            acc = (acc * m + v) % 97
        else:
            acc = z3.If(v < 10, acc * 10 + v, acc * 100 + v) % 97
    if isinstance(acc, int):
        return acc
    r = ctx.fresh_int('ck97')
    ctx.add(r == acc)
    # C06 lemmas as callee contract (subst_detected / transp_detected over hR[digits], hR[letters], hL, hT[digits]):
    # a string that differs from an earlier argument by one same-kind substitution, or by swapping two adjacent
    # different digits, has a different checksum.  Stated as implications, so they cost nothing when not needed.
    from .isets import ISet, DIGITS
    LET = ISet([(65, 90)])
    for key0, r0 in list(memo.items()):
        if key0[0] != 'mod97' or len(key0) != len(key):
            continue
        old = memo.get(('chars',) + key0[1:])
        if old is None:
            continue
        diff = [i for i, (a, b) in enumerate(zip(old, number.chars)) if not (a is b or (isinstance(a, int) and isinstance(b, int) and a == b)
                                                                               or (not isinstance(a, int) and not isinstance(b, int) and a.get_id() == b.get_id()))]
        if len(diff) == 1:
            a, b = old[diff[0]], number.chars[diff[0]]
            da, db = I._dom(a), I._dom(b)
            if (da.subset(DIGITS) and db.subset(DIGITS)) or (da.subset(LET) and db.subset(LET)):
                ctx.add(z3.Implies(a != b, r != r0))
        elif len(diff) == 2 and diff[1] == diff[0] + 1:
            i, j = diff
            a0, a1, b0, b1 = old[i], old[j], number.chars[i], number.chars[j]
            same = lambda x, y: (x is y) or (isinstance(x, int) and isinstance(y, int) and x == y) or \
                (not isinstance(x, int) and not isinstance(y, int) and x.get_id() == y.get_id())
            if same(a0, b1) and same(a1, b0) and all(I._dom(x).subset(DIGITS) for x in (a0, a1)):
                ctx.add(z3.Implies(a0 != a1, r != r0))
    memo[key] = r
    memo[('chars',) + key[1:]] = list(number.chars)
    return r


# ---------------------------------------------------------------------------------------------- generic algorithms
def _same_char(x, y):
    return (x is y) or (isinstance(x, int) and isinstance(y, int) and x == y) or \
        (not isinstance(x, int) and not isinstance(y, int) and x.get_id() == y.get_id())


def _lemma_contract(modname, transp):
    """checksum() of a generic algorithm: the body is executed as it is; in addition the C06 theorems are available as
    its contract: an argument that differs from an earlier one by one same-kind substitution (digit/digit, letter/letter)
    - or, where C06 proves hT, by swapping two adjacent different symbols - has a different checksum."""
    from .isets import ISet, DIGITS
    LET = ISet([(65, 90)])

    @contract(modname, 'checksum')
    def _ck(I, fn, args, kwargs):
        import z3
        ctx = I.ctx
        number = args[0] if args else kwargs.get('number')
        if isinstance(number, AbstractStr):
            number = I.materialise(number)
        number = I.norm_str(number)
        r = I.call_func(fn, [number] + list(args[1:]), kwargs)
        if not isinstance(number, FixedStr) or not is_sym(r):
            return r
        extra = tuple(sorted((k, repr(v)) for k, v in kwargs.items())) + tuple(repr(a) for a in args[1:])
        memo = ctx.__dict__.setdefault('memo', {})
        tag = 'ck:' + modname
        for k_, v_ in list(memo.items()):
            if not (isinstance(k_, tuple) and len(k_) == 3 and k_[0] == tag):
                continue
            (t, ex, n_), (chars0, r0) = k_, v_
            if ex != extra or n_ != len(number):
                continue
            diff = [i for i, (a, b) in enumerate(zip(chars0, number.chars)) if not _same_char(a, b)]
            if len(diff) == 1:
                a, b = chars0[diff[0]], number.chars[diff[0]]
                da, db = I._dom(a), I._dom(b)
                if (da.subset(DIGITS) and db.subset(DIGITS)) or (da.subset(LET) and db.subset(LET)):
                    ctx.add(z3.Implies(a != b, r != r0))
            elif transp and len(diff) == 2 and diff[1] == diff[0] + 1:
                i, j = diff
                if _same_char(chars0[i], number.chars[j]) and _same_char(chars0[j], number.chars[i]) and \
                        all(I._dom(x).subset(DIGITS) for x in (chars0[i], chars0[j])):
                    ctx.add(z3.Implies(chars0[i] != chars0[j], r != r0))
        rv = ctx.fresh_int('ck')
        ctx.add(rv == r)
        memo[(tag, extra, len(number))] = (list(number.chars), rv)
        return rv
    return _ck


for _m, _t in (('stdnum.luhn', False), ('stdnum.verhoeff', True), ('stdnum.damm', True), ('stdnum.iso7064.mod_11_2', True),
               ('stdnum.iso7064.mod_37_2', True), ('stdnum.iso7064.mod_11_10', False), ('stdnum.iso7064.mod_37_36', False)):
    _lemma_contract(_m, _t)
