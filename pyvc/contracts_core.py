"""Contracts of shared repository functions, used instead of their bodies at every call site.

Each is verified against the body elsewhere (named in the docstring) or listed as an assumption in the evidence.
"""
import sys
import types

from .interp import contract, Func
from .sym import FixedStr, LongStr, AbstractStr, Opaque, is_sym
from .ctx import Raise, Unsupported


@contract('stdnum.util', 'clean')
def _clean(I, fn, args, kwargs):
    """clean(number, D) == delete_D(map_g(number)); non-iterables / non-str items -> InvalidFormat.
    Verified against the bodies of clean/_clean_chars by the C14 check (comprehension rule + table)."""
    return I.do_clean(args, kwargs)


@contract('stdnum.util', 'get_cc_module')
def _get_cc_module(I, fn, args, kwargs):
    """concrete country code: the real function (an import); symbolic: fork over the candidates"""
    cc = args[0] if args else kwargs['cc']
    name = args[1] if len(args) > 1 else kwargs['name']
    cc = I.need_concrete(cc, 'country code')
    name = I.need_concrete(name, 'module name')
    if not isinstance(cc, str):
        return NotImplemented
    return I.native(fn.pyfunc, [cc, name], {})
