"""Interval sets over code points and the Unicode class tables of the running interpreter.

Every table is generated at run time from the interpreter that runs the checks (CPython 3.12 / Unicode 15.0, the
same as /venv which runs the repository), never from a constant.
"""
import sys
import unicodedata

MAXCP = 0x10FFFF


class ISet:
    """sorted disjoint closed intervals over 0..MAXCP"""
    __slots__ = ('iv', '_h')

    def __init__(self, iv):
        self.iv = tuple(iv)
        self._h = None

    @staticmethod
    def norm(rs):
        out = []
        for a, b in sorted(rs):
            if out and a <= out[-1][1] + 1:
                out[-1] = (out[-1][0], max(out[-1][1], b))
            else:
                out.append((a, b))
        return ISet(out)

    @staticmethod
    def of(chars):
        return ISet.norm([(ord(c), ord(c)) if isinstance(c, str) else (c, c) for c in chars])

    def inter(self, o):
        out = []
        i = j = 0
        A, B = self.iv, o.iv
        while i < len(A) and j < len(B):
            lo = max(A[i][0], B[j][0])
            hi = min(A[i][1], B[j][1])
            if lo <= hi:
                out.append((lo, hi))
            if A[i][1] < B[j][1]:
                i += 1
            else:
                j += 1
        return ISet(out)

    def compl(self):
        out = []
        prev = 0
        for a, b in self.iv:
            if a > prev:
                out.append((prev, a - 1))
            prev = b + 1
        if prev <= MAXCP:
            out.append((prev, MAXCP))
        return ISet(out)

    def union(self, o):
        return ISet.norm(list(self.iv) + list(o.iv))

    def minus(self, o):
        return self.inter(o.compl())

    def empty(self):
        return not self.iv

    def subset(self, o):
        return self.inter(o).iv == self.iv

    def disjoint(self, o):
        return self.inter(o).empty()

    def contains(self, cp):
        for a, b in self.iv:
            if a <= cp <= b:
                return True
            if a > cp:
                return False
        return False

    def size(self):
        return sum(b - a + 1 for a, b in self.iv)

    def first(self):
        return self.iv[0][0]

    def pick(self, prefer=()):
        """a representative member, preferring printable ASCII-ish ones"""
        for p in prefer:
            if self.contains(p):
                return p
        for a, b in self.iv:
            for cp in range(max(a, 0x21), min(b, 0x7e) + 1):
                return cp
        return self.iv[0][0]

    def members(self, limit=None):
        out = []
        for a, b in self.iv:
            for cp in range(a, b + 1):
                out.append(cp)
                if limit is not None and len(out) > limit:
                    return out
        return out

    def __eq__(self, o):
        return isinstance(o, ISet) and self.iv == o.iv

    def __hash__(self):
        if self._h is None:
            self._h = hash(self.iv)
        return self._h

    def __repr__(self):
        def f(x):
            return chr(x) if 0x21 <= x <= 0x7e else 'U+%04X' % x
        parts = [f(a) if a == b else '%s-%s' % (f(a), f(b)) for a, b in self.iv[:12]]
        return 'ISet{%s%s}' % (' '.join(parts), ' …(%d)' % len(self.iv) if len(self.iv) > 12 else '')


FULL = ISet([(0, MAXCP)])
EMPTY = ISet([])
ASCII = ISet([(0, 127)])
DIGITS = ISet([(48, 57)])
UPPER = ISet([(65, 90)])
LOWER = ISet([(97, 122)])


def _ranges(pred):
    out = []
    start = None
    for cp in range(MAXCP + 1):
        if pred(chr(cp)):
            if start is None:
                start = cp
        elif start is not None:
            out.append((start, cp - 1))
            start = None
    if start is not None:
        out.append((start, MAXCP))
    return ISet(out)


_PRED = {
    'space': str.isspace,
    'digit': str.isdigit,
    'decimal': str.isdecimal,
    'numeric': str.isnumeric,
    'alpha': str.isalpha,
    'alnum': str.isalnum,
    'upper': str.isupper,
    'lower': str.islower,
    'upstable': lambda c: c.upper() == c,
    'lowstable': lambda c: c.lower() == c,
    'word': lambda c: c.isalnum() or c == '_',
    'ascii': str.isascii,
    # white space accepted (and stripped) by int(): str.isspace minus the four information separators
    'intspace': lambda c: c.isspace() and not (0x1c <= ord(c) <= 0x1f),
    'printable': str.isprintable,
}
_CLS = {}


def cls(name):
    """ISet of the code points for which the named str predicate holds"""
    if name not in _CLS:
        _CLS[name] = _ranges(_PRED[name])
    return _CLS[name]


_DEC = None


def decimal_runs():
    """list of (lo, hi) with hi-lo == 9: the Nd code points, value = cp - lo"""
    global _DEC
    if _DEC is None:
        runs = set()
        for a, b in cls('decimal').iv:
            cp = a
            while cp <= b:
                v = unicodedata.decimal(chr(cp))
                runs.add((cp - v, cp - v + 9))
                cp = cp - v + 10
        _DEC = sorted(runs)
        for lo, hi in _DEC:
            for k in range(10):
                assert unicodedata.decimal(chr(lo + k)) == k
    return _DEC


def decimal_value(cp):
    for lo, hi in decimal_runs():
        if lo <= cp <= hi:
            return cp - lo
    return -1


_CASE = {}


def case_map(kind):
    """single-character case mapping as runs: list of (lo, hi, delta) for code points whose mapping is one other
    code point at constant offset, and dict cp -> tuple of code points for the length-changing ones"""
    if kind not in _CASE:
        f = str.upper if kind == 'upper' else str.lower
        runs = []
        multi = {}
        cur = None
        for cp in range(MAXCP + 1):
            if 0xD800 <= cp <= 0xDFFF:
                cur = None
                continue
            r = f(chr(cp))
            if len(r) != 1:
                multi[cp] = tuple(ord(x) for x in r)
                cur = None
                continue
            d = ord(r) - cp
            if d == 0:
                cur = None
                continue
            if cur is not None and cur[1] == cp - 1 and cur[2] == d:
                cur[1] = cp
            else:
                cur = [cp, cp, d]
                runs.append(cur)
        _CASE[kind] = ([tuple(r) for r in runs], multi)
    return _CASE[kind]


_CI = {}


def case_image(kind, s):
    """ISet of all code points occurring in f(c) for c in s (f = upper / lower)"""
    k = (kind, s.iv)
    if k not in _CI:
        _CI[k] = _case_image(kind, s)
    return _CI[k]


def _case_image(kind, s):
    runs, multi = case_map(kind)
    stable = cls('upstable' if kind == 'upper' else 'lowstable')
    out = list(s.inter(stable).iv)
    for lo, hi, d in runs:
        for a, b in s.inter(ISet([(lo, hi)])).iv:
            out.append((a + d, b + d))
    for cp, img in multi.items():
        if s.contains(cp):
            out.extend((x, x) for x in img)
    return ISet.norm(out)


def warm():
    for n in ('space', 'decimal', 'digit', 'alpha', 'alnum', 'upstable', 'lowstable', 'word', 'intspace'):
        cls(n)
    decimal_runs()
    case_map('upper')
    case_map('lower')


UNIDATA = unicodedata.unidata_version
PYVER = sys.version.split()[0]
