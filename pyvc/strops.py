"""String / integer builtin contracts of the executor (mixin for Interp).

Every partial operation states its precondition with ctx.require(pre, ExceptionClass, why): the false branch is the
path on which CPython raises that class.
"""
import z3

from .isets import ISet, FULL, EMPTY, DIGITS, cls, case_map, case_image, decimal_runs
from .sym import (U, UAnd, And, Or, Not, Eq, If, in_set, is_sym, is_cond, is_charvar, FixedStr, LongStr, AbstractStr,
                  Opaque, LazySel, tostr, conc, simp, str_eq, str_le, decval_term, toz3)
from .ctx import Raise, Unsupported, Infeasible, Restart

MAXDIGITS = 4300
_LETTERS36 = ISet([(65, 90), (97, 122)])


class StrOps:
    # ---------------------------------------------------------------- concretisation
    def norm_str(self, v):
        """replace characters pinned to one value by that value; FixedStr of concrete chars -> str"""
        if isinstance(v, FixedStr):
            out = []
            for c in v.chars:
                x = self.ctx.char_value(c)
                if x is None:
                    return v          # keep the variables (identity matters for memoised contracts)
                out.append(x)
            return ''.join(chr(c) for c in out)
        return v

    def need_concrete(self, v, what='value'):
        """fork over the feasible concrete values of a short symbolic string (needs a finite candidate set)"""
        ctx = self.ctx
        if isinstance(v, AbstractStr):
            v = self.materialise(v)
        v = self.norm_str(v)
        if isinstance(v, str) or not isinstance(v, FixedStr):
            return v
        key = tuple(c if isinstance(c, int) else c.get_id() for c in v.chars)
        cands = ctx.hints.get(key)
        if cands is None:
            total = 1
            doms = []
            for c in v.chars:
                d = ISet([(c, c)]) if isinstance(c, int) else (ctx.dom_of(c) if is_charvar(c) else FULL)
                total *= d.size()
                doms.append(d)
                if total > 200:
                    raise Unsupported('concrete %s needed from an unconstrained symbolic string' % what)
            import itertools
            cands = [''.join(chr(x) for x in t) for t in itertools.product(*[d.members() for d in doms])]
        cands = [c for c in cands if len(c) == len(v)]
        for cand in cands:
            if ctx.branch(str_eq(v, cand)):
                return cand
        raise Infeasible()

    # ---------------------------------------------------------------- int()
    def to_int(self, v, base=10):
        ctx = self.ctx
        if isinstance(v, bool):
            return int(v)
        if isinstance(v, int):
            return v
        if is_sym(v) and not is_cond(v):
            return v
        if isinstance(v, float):
            return int(v)
        if isinstance(v, AbstractStr):
            v = self.materialise(v)
        if isinstance(v, LongStr):
            return self.long_to_int(v, base)
        if isinstance(v, Opaque):
            raise Unsupported('int(%r)' % v)
        if v is None or isinstance(v, (tuple, list, dict)):
            raise Raise(TypeError, 'int() of %s' % type(v).__name__)
        v = self.norm_str(v)
        if isinstance(v, str):
            try:
                return int(v, base)
            except ValueError:
                raise Raise(ValueError, 'int() of text that is no base-%d literal' % base)
        if not isinstance(v, FixedStr):
            raise Unsupported('int(%r)' % type(v))
        chars = v.chars
        n = len(chars)
        if n == 0:
            raise Raise(ValueError, "int('')")
        if base == 10:
            if all(self._dom(ch).subset(DIGITS) for ch in chars):
                if n > MAXDIGITS:
                    raise Raise(ValueError, 'int(): more than 4300 digits')
                total = 0
                src = ctx.__dict__.get('digit_src', {})
                p = 0
                while p < n:
                    ch = chars[p]
                    e = src.get(ch.get_id()) if not isinstance(ch, int) else None
                    if e is not None and e[2] == e[3] - 1 and p + e[3] <= n and all(
                            (not isinstance(chars[p + j], int)) and src.get(chars[p + j].get_id(), (None,))[0] == e[0]
                            and src[chars[p + j].get_id()][2] == e[3] - 1 - j for j in range(e[3])):
                        # the complete digit string of one integer: its value is that integer
                        total = total * (10 ** e[3]) + e[1]
                        p += e[3]
                        continue
                    total = total * 10 + (ch - 48)
                    p += 1
                return total
            dec = cls('decimal')
            alld = And(*[in_set(ch, dec) for ch in chars])
            if alld is not False and ctx.branch(alld):
                if n > MAXDIGITS:
                    raise Raise(ValueError, 'int(): more than 4300 digits')
                total = 0
                for ch in chars:
                    total = total * 10 + self._decval(ch)
                return total
            return self._int_general(chars, 10)
        if n == 1:
            ch = chars[0]
            dec = cls('decimal')
            lim = _LETTERS36.inter(ISet([(65, 65 + base - 11), (97, 97 + base - 11)])) if base > 10 else EMPTY
            okset = dec.union(lim)
            ctx.require(in_set(ch, okset), ValueError, 'int(x, %d) of a character that is no base-%d digit' % (base, base))
            if self._dom(ch).subset(DIGITS):
                val = ch - 48
            elif self._dom(ch).subset(ISet([(65, 90)])):
                val = ch - 55
            elif self._dom(ch).subset(ISet([(48, 57), (65, 90)])):
                val = If(ch <= 57, ch - 48, ch - 55)
            else:
                val = If(toz3(in_set(ch, ISet([(65, 90)]))), ch - 55,
                         If(toz3(in_set(ch, ISet([(97, 122)]))), ch - 87, self._decval(ch)))
            if base <= 10:
                ctx.require(val < base, ValueError, 'digit out of range for base')
            return val
        return self._int_general(chars, base)

    def _dom(self, ch):
        if isinstance(ch, int):
            return ISet([(ch, ch)])
        if is_charvar(ch):
            return self.ctx.dom_of(ch)
        return FULL

    def _decval(self, ch):
        if isinstance(ch, int):
            from .isets import decimal_value
            return decimal_value(ch)
        d = self._dom(ch)
        if d.subset(DIGITS):
            return ch - 48
        memo = self.ctx.__dict__.setdefault('decvals', {})
        k = ch.get_id()
        if k not in memo:
            dv = self.ctx.fresh_int('dv')
            self.ctx.add(dv == decval_term(ch))
            # the solver model of a recursive-function term may be partial: a model that needs it and does not replay
            # is classified as approximate (undecided), never as an alarm
            soft = self.ctx.__dict__.setdefault('soft', [])
            if 'decimal value of a possibly non-ASCII digit' not in soft:
                soft.append('decimal value of a possibly non-ASCII digit')
            self.ctx.add(z3.And(dv >= (0 if d.subset(cls('decimal')) else -1), dv <= 9))
            memo[k] = dv
        elif d.subset(cls('decimal')):
            self.ctx.add(memo[k] >= 0)
        return memo[k]

    def _digit_value(self, ch, base):
        """z3 term: value of ch as a digit in the base, -1 if it is none"""
        dv = self._decval(ch)
        if base <= 10:
            return dv if isinstance(dv, int) else z3.If(dv < base, dv, -1)
        up = z3.If(z3.And(ch >= 65, ch <= 65 + base - 11), ch - 55, z3.If(z3.And(ch >= 97, ch <= 97 + base - 11), ch - 87, -1))
        return z3.If(dv >= 0, dv, up)

    def _int_general(self, chars, base):
        """the full grammar of int(str, base) as a symbolic automaton:
        ws* [+-]? digit (_? digit)* ws*   (ws = str.isspace minus U+001C..U+001F)"""
        ctx = self.ctx
        n = len(chars)
        ws = cls('intspace')
        # states: 0 leading ws, 1 after sign, 2 in digits, 3 after underscore, 4 trailing ws, 5 fail
        state = z3.IntVal(0)
        acc = z3.IntVal(0)
        neg = z3.BoolVal(False)
        nd = z3.IntVal(0)
        for ch in chars:
            ch_ = ch if is_sym(ch) else z3.IntVal(ch)
            isws = toz3(in_set(ch, ws))
            dv = self._digit_value(ch_, base)
            isd = dv >= 0
            issign = z3.Or(ch_ == 43, ch_ == 45)
            isus = ch_ == 95
            ns = z3.If(state == 0, z3.If(isws, 0, z3.If(issign, 1, z3.If(isd, 2, 5))),
                 z3.If(state == 1, z3.If(isd, 2, 5),
                 z3.If(state == 2, z3.If(isd, 2, z3.If(isus, 3, z3.If(isws, 4, 5))),
                 z3.If(state == 3, z3.If(isd, 2, 5),
                 z3.If(state == 4, z3.If(isws, 4, 5), 5)))))
            neg = z3.If(z3.And(state == 0, ch_ == 45), True, neg)
            acc = z3.If(z3.And(ns == 2), acc * base + dv, acc)
            nd = z3.If(ns == 2, nd + 1, nd)
            state = ns
        valid = z3.Or(state == 2, state == 4)
        ctx.require(valid, ValueError, 'int() of text that is no base-%d literal' % base)
        if n > MAXDIGITS:
            ctx.require(nd <= MAXDIGITS, ValueError, 'int(): more than 4300 digits')
        r = ctx.fresh_int('iv')
        ctx.add(r == z3.If(neg, -acc, acc))
        return r

    def long_to_int(self, s, base):
        ctx = self.ctx
        dec = cls('decimal')
        okc = dec if base <= 10 else dec.union(_LETTERS36)
        if not s.cls.subset(okc):
            # sign / whitespace / underscores / garbage: whether int() accepts is left open
            b = ctx.fresh_bool('intok')
            if not ctx.branch(b):
                raise Raise(ValueError, 'int() of long text that is no literal', approx=True)
            ctx.mark_approx('int() grammar on a string of unbounded length')
        ctx.require(s.L <= MAXDIGITS, ValueError, 'int(): more than 4300 digits')
        r = ctx.fresh_int('bigint')
        if s.cls.subset(okc):
            ctx.add(r >= 0)
        return r

    # ---------------------------------------------------------------- str(int), %-formatting
    def int_to_str(self, v, width=0, pad='0', maxdigits=40):
        ctx = self.ctx
        if isinstance(v, bool):
            v = int(v)
        if isinstance(v, int):
            s = str(v)
            if width and len(s) < width:
                if pad == '0' and s.startswith('-'):
                    s = '-' + s[1:].rjust(width - 1, '0')
                else:
                    s = s.rjust(width, pad)
            return s
        sign = []
        if ctx.branch(v < 0):
            sign = [45]
            v = -v
        k = 1
        while True:
            if ctx.branch(v < 10 ** k):
                break
            k += 1
            if k > maxdigits:
                raise Unsupported('str() of an unbounded symbolic int')
        digs = []
        src = ctx.__dict__.setdefault('digit_src', {})
        for i in reversed(range(k)):
            d = ctx.fresh_char(DIGITS, 'd')
            digs.append(d)
            ctx.add(d == 48 + ((v / (10 ** i)) % 10 if i else v % 10))
            src[d.get_id()] = (v.get_id(), v, i, k)
        body = digs
        if pad == '0':
            while len(sign) + len(body) < width:
                body = [48] + body
            return FixedStr(sign + body)
        out = sign + body
        while len(out) < width:
            out = [ord(pad)] + out
        return FixedStr(out)

    def percent(self, fmt, arg):
        import re
        if isinstance(arg, dict):
            raise Unsupported('%-formatting with a mapping')
        args = list(arg) if isinstance(arg, tuple) else [arg]
        out = []
        i = 0
        k = 0
        for m in re.finditer(r'%(0?)(\d*)([sdXxr])|%%', fmt):
            out += [ord(c) for c in fmt[i:m.start()]]
            i = m.end()
            if m.group(0) == '%%':
                out.append(37)
                continue
            if k >= len(args):
                raise Raise(TypeError, 'not enough arguments for format string')
            a = args[k]
            k += 1
            kind = m.group(3)
            width = int(m.group(2) or 0)
            if isinstance(a, AbstractStr):
                a = self.materialise(a)
            if kind == 's':
                if isinstance(a, (str, FixedStr)):
                    a = tostr(a)
                elif isinstance(a, bool) or a is None:
                    a = tostr(str(a))
                elif isinstance(a, int) or (is_sym(a) and not is_cond(a)):
                    a = tostr(self.int_to_str(a))
                elif isinstance(a, LongStr):
                    raise Unsupported('%s of a long string')
                else:
                    raise Unsupported('%%s of %r' % type(a))
                chars = a.chars
                if len(chars) < width:
                    chars = [32] * (width - len(chars)) + chars
                out += chars
            elif kind == 'd':
                if isinstance(a, (str, FixedStr, LongStr)) or a is None:
                    raise Raise(TypeError, '%d format: a real number is required')
                out += tostr(self.int_to_str(a, width, '0' if m.group(1) else ' ')).chars
            elif kind in 'Xx':
                if isinstance(a, int):
                    out += [ord(c) for c in ('%' + m.group(1) + m.group(2) + kind) % a]
                elif isinstance(a, (str, FixedStr, LongStr)) or a is None:
                    raise Raise(TypeError, '%X format: an integer is required')
                else:
                    out += self.int_to_hex(a, width, m.group(1) == '0', kind == 'X').chars
            else:
                raise Unsupported('%r formatting')
        out += [ord(c) for c in fmt[i:]]
        if k != len(args):
            raise Raise(TypeError, 'not all arguments converted during string formatting')
        return simp(FixedStr(out))

    def int_to_hex(self, v, width, zero, upper):
        ctx = self.ctx
        if ctx.branch(v < 0):
            raise Unsupported('hex of a negative symbolic int')
        k = 1
        while not ctx.branch(v < 16 ** k):
            k += 1
            if k > 20:
                raise Unsupported('hex of an unbounded symbolic int')
        digs = []
        hexset = ISet([(48, 57), (65, 70)]) if upper else ISet([(48, 57), (97, 102)])
        for i in reversed(range(k)):
            d = ctx.fresh_char(hexset, 'h')
            x = (v / (16 ** i)) % 16
            ctx.add(d == z3.If(x < 10, 48 + x, (55 if upper else 87) + x))
            digs.append(d)
        while len(digs) < width:
            digs.insert(0, 48 if zero else 32)
        return FixedStr(digs)

    # ---------------------------------------------------------------- index / contains
    def index_of(self, seq, x, exc=ValueError):
        """seq.index(x) for a concrete str/tuple and a possibly symbolic element"""
        ctx = self.ctx
        if isinstance(seq, (tuple, list)):
            if all(isinstance(e, int) for e in seq) and (isinstance(x, int) or is_sym(x)):
                if isinstance(x, int):
                    if x in seq:
                        return list(seq).index(x)
                    raise Raise(exc, 'index: value not in sequence')
                ctx.require(Or(*[x == e for e in sorted(set(seq))]), exc, 'index: value not in sequence')
                e = z3.IntVal(-1)
                for i in reversed(range(len(seq))):
                    e = z3.If(x == seq[i], i, e)
                return e
            if all(isinstance(e, str) for e in seq):
                x = self.norm_str(x)
                if isinstance(x, str):
                    if x in seq:
                        return list(seq).index(x)
                    raise Raise(exc, 'index: value not in sequence')
                for i, e in enumerate(seq):
                    if ctx.branch(str_eq(x, e)):
                        return i
                raise Raise(exc, 'index: value not in sequence')
            raise Unsupported('index on a mixed sequence')
        if not isinstance(seq, str):
            raise Unsupported('index on %r' % type(seq))
        if isinstance(x, (int, type(None))) or (is_sym(x)):
            raise Raise(TypeError, 'str.index() of a non-string')
        if isinstance(x, AbstractStr):
            x = self.materialise(x)
        x = tostr(self.norm_str(x))
        if not isinstance(x, FixedStr):
            raise Unsupported('index arg %r' % type(x))
        c = conc(x)
        if c is not None:
            i = seq.find(c)
            if i < 0:
                raise Raise(exc, 'index: substring not found')
            return i
        if len(x) != 1:
            raise Unsupported('index of a multi-character symbolic string')
        ch = x.chars[0]
        member = in_set(ch, ISet.of(seq)) if seq else False
        ctx.require(member, exc, 'index: character not in %r' % seq[:40])
        e = z3.IntVal(-1)
        for i in reversed(range(len(seq))):
            if seq.index(seq[i]) == i:
                e = z3.If(ch == ord(seq[i]), i, e)
        r = ctx.fresh_int('ix')
        ctx.add(r == e)
        ctx.add(z3.And(r >= 0, r < len(seq)))
        return r

    def contains(self, container, x):
        ctx = self.ctx
        if isinstance(container, AbstractStr):
            container = self.materialise(container)
        if isinstance(x, AbstractStr):
            x = self.materialise(x)
        container = self.norm_str(container)
        if isinstance(container, LongStr):
            x = tostr(self.norm_str(x)) if isinstance(x, (str, FixedStr)) else x
            if isinstance(x, FixedStr) and len(x) == 1 and isinstance(x.chars[0], int):
                if not container.cls.contains(x.chars[0]) and not (container.lastnl and x.chars[0] == 10):
                    return False
                ctx.mark_approx('membership test in a long string')
                return ctx.fresh_bool('inlong')
            raise Unsupported('membership test in a long string')
        if isinstance(x, LongStr):
            if isinstance(container, (tuple, list, set, frozenset, dict)) and all(isinstance(e, str) for e in container):
                return False      # longer than every concrete member (bound checked by the driver)
            raise Unsupported('long string in %r' % type(container))
        if isinstance(container, str):
            if not isinstance(x, (str, FixedStr)):
                raise Raise(TypeError, "'in <string>' requires string as left operand")
            x = tostr(self.norm_str(x))
            c = conc(x)
            if c is not None:
                return c in container
            if len(x) == 1:
                return in_set(x.chars[0], ISet.of(container)) if container else False
            return Or(*[str_eq(x, container[i:i + len(x)]) for i in range(len(container) - len(x) + 1)])
        if isinstance(container, FixedStr):
            if not isinstance(x, (str, FixedStr)):
                raise Raise(TypeError, "'in <string>' requires string as left operand")
            x = tostr(x)
            n, m = len(container), len(x)
            return Or(*[str_eq(FixedStr(container.chars[i:i + m]), x) for i in range(n - m + 1)])
        if isinstance(container, (tuple, list, set, frozenset, dict)) or type(container).__name__ in ('dict_keys',):
            items = list(container.keys()) if isinstance(container, dict) else list(container)
            if isinstance(x, (FixedStr, str)):
                x = self.norm_str(x)
                if isinstance(x, str) and all(isinstance(it, (str, int, type(None), tuple)) for it in items):
                    return x in items
                strs = [it for it in items if isinstance(it, str) and len(it) == len(x)]
                if isinstance(x, FixedStr) and all(isinstance(it, str) for it in items):
                    key = tuple(c if isinstance(c, int) else c.get_id() for c in x.chars)
                    if len(strs) <= 400:
                        ctx.hints[key] = strs
                    # single characters: a unary set
                    if len(x) == 1:
                        return in_set(x.chars[0], ISet.of(strs)) if strs else False
                return Or(*[str_eq(x, it) for it in items if isinstance(it, (str, FixedStr))])
            if isinstance(x, (int, bool)) and not any(is_sym(i) for i in items):
                return x in items
            if is_sym(x) or isinstance(x, int):
                return Or(*[Eq(x, it) for it in items if isinstance(it, int) or is_sym(it)])
            if x is None:
                return any(i is None for i in items)
            if isinstance(x, tuple):
                return Or(*[self.compare_eq(x, it) for it in items if isinstance(it, tuple) and len(it) == len(x)])
        raise Unsupported('in %r / %r' % (type(container).__name__, type(x).__name__))

    # ---------------------------------------------------------------- case mapping on symbolic characters
    def map_case(self, kind, s):
        """upper()/lower() of a FixedStr, character by character"""
        ctx = self.ctx
        stable = cls('upstable' if kind == 'upper' else 'lowstable')
        runs, multi = case_map(kind)
        out = []
        for ch in s.chars:
            if isinstance(ch, int):
                r = (chr(ch).upper() if kind == 'upper' else chr(ch).lower())
                out += [ord(x) for x in r]
                continue
            d = self._dom(ch)
            if d.subset(stable):
                out.append(ch)
                continue
            if kind == 'lower' and d.contains(0x3A3) and ctx.branch(Eq(ch, 0x3A3)):
                # final-sigma rule: the result is one of the two small sigmas depending on the context
                ctx.mark_approx('lower() of a capital sigma (context dependent)')
                out.append(ctx.fresh_char(ISet([(0x3C2, 0x3C3)]), 'u'))
                continue
            if ctx.branch(in_set(ch, stable)):
                out.append(ch)
                continue
            d = self._dom(ch)
            mcps = [cp for cp in multi if d.contains(cp)]
            took = False
            if len(mcps) > 8:
                # only this path leaves the subset: the exploration goes on with the characters that map one to one
                if ctx.branch(in_set(ch, ISet([(cp, cp) for cp in sorted(mcps)]))):
                    raise Unsupported('%s() of a character with many length-changing candidates' % kind)
                mcps = []
            for cp in mcps:
                if ctx.branch(Eq(ch, cp)):
                    out += list(multi[cp])
                    took = True
                    break
            if took:
                continue
            d = self._dom(ch)
            rr = [(lo, hi, dl) for lo, hi, dl in runs if not d.disjoint(ISet([(lo, hi)]))]
            if len(rr) > 60:
                # nearly unconstrained character: keep only the image set (relation to the source dropped)
                ctx.mark_approx('%s() of a nearly unconstrained character' % kind)
                out.append(ctx.fresh_char(case_image(kind, d), 'u'))
                continue
            img = case_image(kind, d)
            u = ctx.fresh_char(img, 'u')
            e = ch
            for lo, hi, dl in rr:
                e = z3.If(z3.And(ch >= lo, ch <= hi), ch + dl, e)
            ctx.add(u == e)
            out.append(u)
        return simp(FixedStr(out))
