"""Symbolic values and the two-level condition language (unary interval domain + z3)."""
import z3

from .isets import ISet, FULL, EMPTY, cls, decimal_runs, MAXCP

_DEFS = {}


def _iset_z3(s, c):
    if not s.iv:
        return z3.BoolVal(False)
    if s.iv == FULL.iv:
        return z3.BoolVal(True)
    if len(s.iv) <= 6:
        return z3.Or([z3.And(c >= a, c <= b) if a != b else c == a for a, b in s.iv])
    f = _DEFS.get(s.iv)
    if f is None:
        f = z3.RecFunction('cls%d' % len(_DEFS), z3.IntSort(), z3.BoolSort())
        x = z3.Int('x!')
        z3.RecAddDefinition(f, [x], z3.Or([z3.And(x >= a, x <= b) if a != b else x == a for a, b in s.iv]))
        _DEFS[s.iv] = f
    return f(c)


def decval_term(c):
    """z3 term: decimal value of code point c if it is Nd, else -1"""
    f = _DEFS.get('decval')
    if f is None:
        f = z3.RecFunction('decval', z3.IntSort(), z3.IntSort())
        x = z3.Int('x!')
        e = z3.IntVal(-1)
        for a, b in decimal_runs():
            e = z3.If(z3.And(x >= a, x <= b), x - a, e)
        z3.RecAddDefinition(f, [x], e)
        _DEFS['decval'] = f
    return f(c)


class U:
    """unary condition: char variable in set"""
    __slots__ = ('v', 's')

    def __init__(self, v, s):
        self.v, self.s = v, s

    def z3(self):
        return _iset_z3(self.s, self.v)


class UAnd:
    __slots__ = ('items',)

    def __init__(self, items):
        self.items = items

    def z3(self):
        return z3.And([x.z3() for x in self.items]) if len(self.items) > 1 else self.items[0].z3()


class UOr:
    """disjunction of unary literals (the negation of a UAnd)"""
    __slots__ = ('items',)

    def __init__(self, items):
        self.items = items

    def z3(self):
        return z3.Or([x.z3() for x in self.items])

    def neg(self):
        return UAnd([U(u.v, u.s.compl()) for u in self.items])


def toz3(c):
    if isinstance(c, (U, UAnd, UOr)):
        return c.z3()
    if isinstance(c, bool):
        return z3.BoolVal(c)
    return c


def is_sym(v):
    return isinstance(v, z3.ExprRef)


def is_cond(v):
    return isinstance(v, (bool, z3.BoolRef, U, UAnd, UOr))


_CHARVARS = {}


def is_charvar(c):
    return isinstance(c, z3.ArithRef) and c.get_id() in _CHARVARS


def mk_charvar(name):
    v = z3.Int(name)
    _CHARVARS[v.get_id()] = v
    return v


def And(*a):
    a = [x for x in a if x is not True]
    if any(x is False for x in a):
        return False
    if not a:
        return True
    if len(a) == 1:
        return a[0]
    if all(isinstance(x, (U, UAnd)) for x in a):
        items = {}
        for x in a:
            for u in (x.items if isinstance(x, UAnd) else [x]):
                k = u.v.get_id()
                items[k] = U(u.v, items[k].s.inter(u.s)) if k in items else u
        if any(u.s.empty() for u in items.values()):
            return False
        items = list(items.values())
        return items[0] if len(items) == 1 else UAnd(items)
    return z3.And(*[toz3(x) for x in a])


def Or(*a):
    a = [x for x in a if x is not False]
    if any(x is True for x in a):
        return True
    if not a:
        return False
    if len(a) == 1:
        return a[0]
    if all(isinstance(x, U) for x in a) and len({x.v.get_id() for x in a}) == 1:
        s = a[0].s
        for x in a[1:]:
            s = s.union(x.s)
        if s.iv == FULL.iv:
            return True
        return U(a[0].v, s)
    return z3.Or(*[toz3(x) for x in a])


def Not(a):
    if isinstance(a, bool):
        return not a
    if isinstance(a, U):
        return U(a.v, a.s.compl())
    if isinstance(a, UAnd):
        return UOr([U(u.v, u.s.compl()) for u in a.items])
    if isinstance(a, UOr):
        return a.neg()
    return z3.Not(toz3(a))


def Eq(a, b):
    if isinstance(a, int) and isinstance(b, int):
        return a == b
    if isinstance(b, int) and not isinstance(b, bool) and is_charvar(a):
        return U(a, ISet([(b, b)])) if 0 <= b <= MAXCP else False
    if isinstance(a, int) and not isinstance(a, bool) and is_charvar(b):
        return U(b, ISet([(a, a)])) if 0 <= a <= MAXCP else False
    return a == b


def If(c, a, b):
    if isinstance(c, bool):
        return a if c else b
    if isinstance(a, int) and isinstance(b, int) and a == b:
        return a
    return z3.If(toz3(c), a, b)


def in_set(c, s):
    """condition: code point c (int / charvar / term) is in ISet s"""
    if isinstance(c, int):
        return s.contains(c)
    if is_charvar(c):
        if s.iv == FULL.iv:
            return True
        if not s.iv:
            return False
        return U(c, s)
    return _iset_z3(s, c)


class FixedStr:
    """string of known length; chars are ints (code points) or char variables"""
    __slots__ = ('chars',)

    def __init__(self, chars):
        self.chars = list(chars)

    def __len__(self):
        return len(self.chars)

    def __repr__(self):
        return 'FixedStr(%s)' % ''.join(chr(c) if isinstance(c, int) else '?' for c in self.chars)


class LongStr:
    """string longer than the exploration bound: materialised ends, symbolic length, opaque middle.
    cls: every character is in this set.  exact=False marks values whose content is an over-approximation."""

    def __init__(self, pre, suf, L, cls_=None, lastnl=False):
        self.pre, self.suf, self.L = list(pre), list(suf), L
        self.cls = cls_ if cls_ is not None else FULL
        self.lastnl = lastnl

    def __repr__(self):
        return 'LongStr(pre=%d,suf=%d)' % (len(self.pre), len(self.suf))


class AbstractStr:
    """a whole string known only by facts: every character in cls, first char not in firstx, last not in lastx.
    Arises from clean()/strip()/upper()/... applied to the unknown input; materialised lazily."""

    def __init__(self, cls_, firstx=EMPTY, lastx=EMPTY, origin=None):
        self.cls, self.firstx, self.lastx = cls_, firstx, lastx
        self.mat = None
        self.origin = origin       # the AbstractStr this one was derived from (relation lost once derived)
        self.derived = False       # something abstract was derived from this value

    def derive(self, cls_=None, firstx=None, lastx=None):
        self.derived = True
        return AbstractStr(self.cls if cls_ is None else cls_, self.firstx if firstx is None else firstx,
                           self.lastx if lastx is None else lastx, origin=self)


class SymDate:
    def __init__(self, y, m, d, has_time=False):
        self.y, self.m, self.d = y, m, d
        self.has_time = has_time


class Opaque:
    """a value the engine knows nothing about except its kind"""

    def __init__(self, kind, info=None):
        self.kind, self.info = kind, info

    def __repr__(self):
        return 'Opaque(%s)' % self.kind


class Match:
    def __init__(self, s, start, end, groups, rx):
        self.s, self.start, self.end, self.groups, self.rx = s, start, end, groups, rx


class LazySel:
    """seq[idx] where seq is a concrete tuple of tuples and idx symbolic"""

    def __init__(self, seq, idx):
        self.seq, self.idx = seq, idx


def tostr(v):
    if isinstance(v, str):
        return FixedStr([ord(c) for c in v])
    return v


def conc(fs):
    """concrete python str of a value if it is fully concrete, else None"""
    if isinstance(fs, str):
        return fs
    if isinstance(fs, FixedStr) and all(isinstance(c, int) for c in fs.chars):
        return ''.join(chr(c) for c in fs.chars)
    return None


def simp(v):
    """FixedStr with only concrete chars -> str"""
    if isinstance(v, FixedStr):
        c = conc(v)
        if c is not None:
            return c
    return v


def str_eq(a, b):
    a, b = tostr(a), tostr(b)
    if len(a) != len(b):
        return False
    return And(*[Eq(x, y) for x, y in zip(a.chars, b.chars)])


def str_le(a, b, strict):
    """lexicographic a < b / a <= b for FixedStr"""
    a, b = tostr(a), tostr(b)
    n = min(len(a), len(b))
    res = (len(a) < len(b)) if strict else (len(a) <= len(b))
    for i in reversed(range(n)):
        x, y = a.chars[i], b.chars[i]
        if isinstance(x, int) and isinstance(y, int):
            res = (x < y) or (x == y and res)
            continue
        if isinstance(y, int) and is_charvar(x):
            lt = in_set(x, ISet([(0, y - 1)]) if y > 0 else EMPTY)
        elif isinstance(x, int) and is_charvar(y):
            lt = in_set(y, ISet([(x + 1, MAXCP)]) if x < MAXCP else EMPTY)
        else:
            lt = x < y
        eq = Eq(x, y)
        if res is True:
            res = Or(lt, eq)
        elif res is False:
            res = lt
        else:
            res = Or(lt, And(eq, res))
    return res
