"""The symbolic executor over the real ASTs of the working tree."""
import ast
import builtins
import importlib
import re
import sys
import types
import functools
import datetime as _dt
import calendar as _cal
import z3

from .isets import ISet, FULL, EMPTY, DIGITS, cls
from .sym import (U, UAnd, And, Or, Not, Eq, If, in_set, is_sym, is_cond, is_charvar, FixedStr, LongStr, AbstractStr,
                  Opaque, SymDate, Match, LazySel, tostr, conc, simp, str_eq, str_le, toz3)
from .ctx import Ctx, Raise, Unsupported, Infeasible, Restart, ReturnSig, BreakSig, ContinueSig
from .regex import RegexM, Unsupported as RxUnsupported
from .strops import StrOps
from .absstr import AbsOps, K_ENDS
from .methods import Methods
from . import front


class Func:
    def __init__(self, node, module, qualname, pyfunc=None, closure=None):
        self.node, self.module, self.qualname, self.pyfunc, self.closure = node, module, qualname, pyfunc, closure

    def __repr__(self):
        return 'Func(%s)' % self.qualname


class BoundMethod:
    def __init__(self, obj, name):
        self.obj, self.name = obj, name


class DDict(dict):
    """collections.defaultdict with concrete keys"""
    factory = None


class OpaqueSeq:
    """sequence of unknown length produced from a long string by the generic-element rule"""

    def __init__(self, elem, src, cond=None):
        self.elem, self.src, self.cond = elem, src, cond


CONTRACTS = {}       # (module name, qualname) -> handler(interp, args, kwargs)


def contract(modname, qualname):
    def deco(f):
        CONTRACTS[(modname, qualname)] = f
        return f
    return deco


def days_in_month(y, m):
    leap = And(y % 4 == 0, Or(y % 100 != 0, y % 400 == 0)) if is_sym(y) else (y % 4 == 0 and (y % 100 != 0 or y % 400 == 0))
    return If(Or(Eq(m, 1), Eq(m, 3), Eq(m, 5), Eq(m, 7), Eq(m, 8), Eq(m, 10), Eq(m, 12)), 31,
              If(Eq(m, 2), If(leap, 29, 28), 30))


def is_pure(e):
    """expression whose evaluation cannot raise or branch: names, constants, comparisons and boolean connectives of
    those, ord(name), integer arithmetic (+ - *) - evaluated as a value instead of by forking"""
    if isinstance(e, (ast.Name, ast.Constant)):
        return True
    if isinstance(e, ast.Compare):
        return all(isinstance(op, (ast.Eq, ast.NotEq, ast.Lt, ast.LtE, ast.Gt, ast.GtE)) for op in e.ops) and \
            is_pure(e.left) and all(is_pure(c) for c in e.comparators)
    if isinstance(e, ast.BoolOp):
        return all(is_pure(v) for v in e.values)
    if isinstance(e, ast.UnaryOp) and isinstance(e.op, (ast.Not, ast.USub)):
        return is_pure(e.operand)
    if isinstance(e, ast.BinOp) and isinstance(e.op, (ast.Add, ast.Sub, ast.Mult)):
        return is_pure(e.left) and is_pure(e.right)
    if isinstance(e, ast.Call) and isinstance(e.func, ast.Name) and e.func.id == 'ord' and len(e.args) == 1 and isinstance(e.args[0], ast.Name):
        return True
    if isinstance(e, ast.IfExp):
        return is_pure(e.test) and is_pure(e.body) and is_pure(e.orelse)
    return False


class Interp(StrOps, AbsOps, Methods):
    def __init__(self, ctx):
        self.ctx = ctx
        self.fnstack = []
        self.EXC = sys.modules['stdnum.exceptions']
        self.max_depth = 25
        self.cur = None
        ctx.where = lambda: '%s:%s' % (self.fnstack[-1] if self.fnstack else '?', getattr(self.cur, 'lineno', '?'))
        self.inline_numdb_limit = 400

    # ------------------------------------------------------------------ helpers
    def site(self, what=''):
        return (self.fnstack[-1] if self.fnstack else '<top>', what)

    def truth(self, v):
        if is_cond(v):
            return v
        if v is None:
            return False
        if isinstance(v, (int, float)):
            return v != 0
        if is_sym(v):
            return v != 0
        if isinstance(v, AbstractStr):
            v = self.materialise(v)
        if isinstance(v, LongStr):
            return True
        if isinstance(v, (str, FixedStr, tuple, list, dict, set, frozenset, bytes)):
            return len(v) > 0
        if isinstance(v, (Match, SymDate, types.ModuleType, Func, re.Pattern, _dt.date, type, types.FunctionType,
                          types.BuiltinFunctionType, BoundMethod)):
            return True
        if isinstance(v, Opaque):
            if v.kind in ('noniter', 'strseq', 'badseq', 'object'):
                if 'truth' not in v.__dict__:
                    v.truth = self.ctx.fresh_bool('truthy')
                return v.truth
            if v.kind == 'bytes':
                return len(v.info) > 0
        if isinstance(v, OpaqueSeq):
            raise Unsupported('truth of an unbounded sequence')
        if hasattr(v, '__class__') and v.__class__.__module__.startswith('stdnum'):
            return True
        raise Unsupported('truth of %r' % type(v).__name__)

    def tobool(self, v):
        return self.ctx.branch(self.truth(v))

    def norm_index(self, i, n):
        return i + n if i < 0 else i

    def native(self, fn, args, kwargs):
        """call a real builtin / stdlib function on concrete values"""
        def unwrap(a):
            if isinstance(a, Func):
                def cb(*xs):
                    return self.call_func(a, list(xs), {})
                return cb
            return a
        try:
            return fn(*[unwrap(a) for a in args], **{k: unwrap(v) for k, v in kwargs.items()})
        except Raise:
            raise
        except Unsupported:
            raise
        except Exception as e:
            raise Raise(type(e), '%s: %s' % (getattr(fn, '__name__', fn), str(e)[:80]))

    # ------------------------------------------------------------------ subscripts
    def subscript(self, v, sl):
        ctx = self.ctx
        if isinstance(v, AbstractStr):
            v = self.materialise(v)
        if isinstance(v, LongStr):
            return self.long_subscript(v, sl)
        if isinstance(v, OpaqueSeq):
            if isinstance(sl, slice):
                return v
            raise Unsupported('index into an unbounded sequence')
        if isinstance(sl, slice):
            parts = [sl.start, sl.stop, sl.step]
            if any(is_sym(x) for x in parts):
                return self.symbolic_slice(v, sl)
            if any(x is not None and not isinstance(x, int) for x in parts):
                raise Raise(TypeError, 'slice indices must be integers')
            if isinstance(v, (str, tuple, list, bytes)):
                return v[sl]
            if isinstance(v, FixedStr):
                return simp(FixedStr(v.chars[sl]))
            if v is None or isinstance(v, (int, bool)) or is_sym(v):
                raise Raise(TypeError, 'object is not subscriptable')
            raise Unsupported('slice of %r' % type(v).__name__)
        if isinstance(v, LazySel):
            inner = [self.subscript(row, sl) for row in v.seq]
            e = inner[-1]
            for k in reversed(range(len(inner) - 1)):
                e = If(v.idx == k, inner[k], e)
            return e
        if isinstance(v, dict):
            return self.dict_subscript(v, sl)
        if v is None or isinstance(v, (int, bool)) or (is_sym(v)):
            raise Raise(TypeError, 'object is not subscriptable')
        if isinstance(v, Opaque):
            raise Unsupported('subscript of %r' % v)
        if isinstance(v, Match):
            return self.match_method(v, 'group', [sl])
        if not isinstance(v, (str, FixedStr, tuple, list, bytes)):
            raise Unsupported('subscript of %r' % type(v).__name__)
        n = len(v)
        if is_sym(sl):
            ctx.require(z3.And(sl >= -n, sl < n), IndexError, 'index out of range', self.site('index'))
            if not ctx.entails(sl >= 0):
                if ctx.branch(sl < 0):
                    sl = sl + n
            if isinstance(v, str):
                v = tostr(v)
            if isinstance(v, FixedStr):
                dom = EMPTY
                for c in v.chars:
                    dom = dom.union(self._dom(c))
                r = ctx.fresh_char(dom, 'e')
                e = v.chars[-1] if is_sym(v.chars[-1]) else z3.IntVal(v.chars[-1])
                for k in reversed(range(n - 1)):
                    e = z3.If(sl == k, v.chars[k], e)
                ctx.add(r == e)
                return FixedStr([r])
            if all(isinstance(x, (int,)) or (is_sym(x) and not is_cond(x)) for x in v):
                e = v[-1] if is_sym(v[-1]) else z3.IntVal(v[-1])
                for k in reversed(range(n - 1)):
                    e = z3.If(sl == k, v[k], e)
                return e
            if all(isinstance(x, tuple) for x in v):
                return LazySel(v, sl)
            if all(isinstance(x, str) and len(x) == 1 for x in v):
                return self.subscript(''.join(v), sl)
            # fork over the positions
            for k in range(n - 1):
                if ctx.branch(sl == k):
                    return v[k]
            return v[n - 1]
        if isinstance(sl, (str, FixedStr)) or sl is None or isinstance(sl, tuple):
            raise Raise(TypeError, 'indices must be integers')
        if not isinstance(sl, int):
            raise Unsupported('index %r' % type(sl).__name__)
        if not (-n <= sl < n):
            raise Raise(IndexError, 'index %d of length %d' % (sl, n), self.site('index'))
        if isinstance(v, FixedStr):
            return simp(FixedStr([v.chars[sl]]))
        return v[sl]

    def symbolic_slice(self, v, sl):
        """s[a:b] with symbolic bounds: fork over the feasible concrete bounds"""
        ctx = self.ctx
        if sl.step not in (None, 1):
            raise Unsupported('symbolic slice step')
        n = len(v)

        def pin(x, default):
            if x is None:
                return default
            if isinstance(x, int):
                return x
            for k in range(-n - 1, n + 2):
                if ctx.branch(x == k):
                    return k
            raise Unsupported('slice bound outside the string')
        a = pin(sl.start, 0)
        b = pin(sl.stop, n)
        return self.subscript(v, slice(a, b))

    def dict_subscript(self, v, sl):
        ctx = self.ctx
        sl = self.norm_str(sl)
        if isinstance(v, DDict):
            if isinstance(sl, FixedStr) or is_sym(sl):
                raise Unsupported('defaultdict indexed by a symbolic key')
            if sl not in v:
                v[sl] = self.call(v.factory, [], {}, {}, None) if v.factory is not None else None
            return v[sl]
        if isinstance(sl, (str, int, tuple)) or sl is None:
            if not isinstance(sl, tuple) or not any(is_sym(x) or isinstance(x, FixedStr) for x in sl):
                if sl in v:
                    return v[sl]
                raise Raise(KeyError, repr(sl)[:40], self.site('dict key'))
        if isinstance(sl, FixedStr):
            keys = [k for k in v if isinstance(k, str) and len(k) == len(sl)]
            ctx.require(Or(*[str_eq(sl, k) for k in keys]), KeyError, 'dict key', self.site('dict key'))
            vals = [v[k] for k in keys]
            if all(isinstance(x, int) and not isinstance(x, bool) for x in vals) and len(sl) == 1:
                e = z3.IntVal(vals[-1])
                for k, x in zip(keys[:-1], vals[:-1]):
                    e = z3.If(toz3(str_eq(sl, k)), x, e)
                return e
            for k in keys[:-1]:
                if ctx.branch(str_eq(sl, k)):
                    return v[k]
            return v[keys[-1]]
        if is_sym(sl):
            keys = [k for k in v if isinstance(k, int)]
            ctx.require(Or(*[sl == k for k in keys]), KeyError, 'dict key', self.site('dict key'))
            if all(isinstance(v[k], int) for k in keys):
                e = z3.IntVal(v[keys[-1]])
                for k in keys[:-1]:
                    e = z3.If(sl == k, v[k], e)
                return e
            for k in keys[:-1]:
                if ctx.branch(sl == k):
                    return v[k]
            return v[keys[-1]]
        raise Unsupported('dict key %r' % type(sl).__name__)

    def long_subscript(self, v, sl):
        ctx = self.ctx
        np_, ns = len(v.pre), len(v.suf)
        if isinstance(sl, slice):
            a, b, st = sl.start, sl.stop, sl.step
            if st not in (None, 1) or any(is_sym(x) for x in (a, b)):
                raise Unsupported('slice of a long string with step / symbolic bounds')
            a = 0 if a is None else a
            if a >= 0 and b is not None and b >= 0:
                if b <= np_:
                    return simp(FixedStr(v.pre[a:b]))
                raise Unsupported('slice of a long string beyond the materialised prefix [%s:%s]' % (a, b))
            if a < 0 and b is None:
                if -a <= ns:
                    return simp(FixedStr(v.suf[a:]))
                raise Unsupported('suffix slice of a long string beyond the materialised suffix')
            if a >= 0 and b is None:
                if a <= np_:
                    return LongStr(v.pre[a:], v.suf, v.L - a, v.cls, v.lastnl)
                raise Unsupported('long string [a:] beyond the prefix')
            if a >= 0 and b < 0:
                if a <= np_ and -b <= ns:
                    return LongStr(v.pre[a:], v.suf[:b], v.L - a + b, v.cls, False)
                raise Unsupported('long string [a:-k]')
            if a < 0 and b < 0:
                if -a <= ns and a < b:
                    return simp(FixedStr(v.suf[a:b]))
            raise Unsupported('slice form on a long string')
        if isinstance(sl, int):
            if 0 <= sl < np_:
                return FixedStr([v.pre[sl]])
            if sl < 0 and -sl <= ns:
                return FixedStr([v.suf[sl]])
            raise Unsupported('index %d into a long string' % sl)
        raise Unsupported('symbolic index into a long string')

    # ------------------------------------------------------------------ iteration
    def iter(self, v):
        if isinstance(v, AbstractStr):
            v = self.materialise(v)
        if isinstance(v, str):
            return list(v)
        if isinstance(v, FixedStr):
            return [simp(FixedStr([c])) for c in v.chars]
        if isinstance(v, (list, tuple)):
            return list(v)
        if isinstance(v, (set, frozenset)):
            return sorted(v, key=repr)
        if isinstance(v, dict):
            return list(v)
        if isinstance(v, (types.GeneratorType, range, zip, enumerate, reversed, map)) or type(v).__name__ in ('dict_items', 'dict_keys', 'dict_values'):
            return list(v)
        if isinstance(v, (LongStr, OpaqueSeq)):
            raise Unsupported('iteration over a long string (needs a loop contract)')
        if v is None or isinstance(v, (int, float, bool)) or (is_sym(v)):
            raise Raise(TypeError, 'object is not iterable')
        if isinstance(v, Opaque):
            if v.kind == 'noniter':
                raise Raise(TypeError, 'object is not iterable')
            if v.kind == 'bytes':
                return [c if isinstance(c, int) else c for c in v.info.chars]
            raise Unsupported('iteration over %r' % v)
        if isinstance(v, bytes):
            return list(v)
        raise Unsupported('iter %r' % type(v).__name__)

    # ------------------------------------------------------------------ function calls
    def call_func(self, f, args, kwargs):
        ctx = self.ctx
        node = f.node
        a = node.args
        env = dict(f.closure) if f.closure else {}
        params = [p.arg for p in a.posonlyargs + a.args]
        defaults = [None] * (len(params) - len(a.defaults)) + list(a.defaults)
        kwargs = dict(kwargs)
        if len(args) > len(params) and not a.vararg:
            raise Raise(TypeError, 'too many positional arguments')
        for i, p in enumerate(params):
            if i < len(args):
                env[p] = args[i]
                if p in kwargs:
                    raise Raise(TypeError, 'multiple values for argument ' + p)
            elif p in kwargs:
                env[p] = kwargs.pop(p)
            elif defaults[i] is not None:
                env[p] = self.eval(defaults[i], {}, f.module)
            else:
                raise Raise(TypeError, 'missing argument ' + p)
        if a.vararg:
            env[a.vararg.arg] = tuple(args[len(params):])
        for p, d in zip(a.kwonlyargs, a.kw_defaults):
            if p.arg in kwargs:
                env[p.arg] = kwargs.pop(p.arg)
            elif d is not None:
                env[p.arg] = self.eval(d, {}, f.module)
            else:
                raise Raise(TypeError, 'missing keyword argument ' + p.arg)
        if a.kwarg:
            env[a.kwarg.arg] = kwargs
        elif kwargs:
            raise Raise(TypeError, 'unexpected keyword argument %s' % sorted(kwargs)[0])
        ctx.depth += 1
        if ctx.depth > self.max_depth:
            raise Unsupported('call depth')
        self.fnstack.append(f.module.__name__ + ':' + f.qualname)
        try:
            self.block(node.body, env, f.module)
            return None
        except ReturnSig as r:
            return r.v
        except Raise as r:
            if r.site is None or r.site[0] == '<top>':
                r.site = (f.module.__name__ + ':' + f.qualname, r.why)
            raise
        finally:
            ctx.depth -= 1
            self.fnstack.pop()

    def resolve(self, name, env, module):
        if name in env:
            return env[name]
        if name in module.__dict__:
            return self.wrap(module.__dict__[name], module, name)
        if hasattr(builtins, name):
            return getattr(builtins, name)
        raise Raise(NameError, name)

    def wrap(self, v, module=None, name=None):
        if isinstance(v, types.FunctionType):
            if (v.__module__ or '').startswith(('stdnum', 'contracts.')) or getattr(v, '__module__', '') == front.WSGI_NAME:
                return front.func_of(v, Func)
            return v
        if isinstance(v, (dict, list)) and module is not None:
            # module-level mutable state: a per-path copy so that the real module is never modified
            key = id(v)
            if key not in self.ctx.heap:
                self.ctx.heap[key] = (v, self.copy_state(v))
            return self.ctx.heap[key][1]
        return v

    def copy_state(self, v):
        if isinstance(v, dict):
            return {k: self.copy_state(x) if isinstance(x, (dict, list)) else x for k, x in v.items()}
        if isinstance(v, list):
            return [self.copy_state(x) if isinstance(x, (dict, list)) else x for x in v]
        return v

    def call(self, fn, args, kwargs, env, module):
        ctx = self.ctx
        if isinstance(fn, Func):
            h = CONTRACTS.get((fn.module.__name__, fn.qualname))
            if h is not None:
                r = h(self, fn, args, kwargs)
                if r is not NotImplemented:
                    return r
            return self.call_func(fn, args, kwargs)
        if isinstance(fn, BoundMethod):
            if isinstance(fn.obj, AbstractStr):
                return self.method(fn.obj, fn.name, args, kwargs)
            return self.method(fn.obj, fn.name, args, kwargs)
        if isinstance(fn, type) and issubclass(fn, BaseException):
            return ('exc', fn)
        from .builtins_ import call_builtin
        return call_builtin(self, fn, args, kwargs, env, module)

    # ------------------------------------------------------------------ expressions
    def eval(self, e, env, module):
        ctx = self.ctx
        t = type(e)
        if t is ast.Constant:
            return e.value
        if t is ast.Name:
            return self.resolve(e.id, env, module)
        if t is ast.Tuple:
            return tuple(self.eval_seq(e.elts, env, module))
        if t is ast.List:
            return list(self.eval_seq(e.elts, env, module))
        if t is ast.Set:
            return set(self.eval(x, env, module) for x in e.elts)
        if t is ast.Dict:
            out = {}
            for k, v in zip(e.keys, e.values):
                if k is None:
                    out.update(self.eval(v, env, module))
                else:
                    kk = self.norm_str(self.eval(k, env, module))
                    if isinstance(kk, FixedStr):
                        kk = self.need_concrete(kk, 'dict key')
                    out[kk] = self.eval(v, env, module)
            return out
        if t is ast.Attribute:
            base = self.eval(e.value, env, module)
            return self.getattr(base, e.attr)
        if t is ast.Call:
            fn = self.eval(e.func, env, module)
            args = []
            for a in e.args:
                if isinstance(a, ast.Starred):
                    args += list(self.iter(self.eval(a.value, env, module)))
                else:
                    args.append(self.eval(a, env, module))
            kwargs = {}
            for k in e.keywords:
                if k.arg is None:
                    kwargs.update(self.eval(k.value, env, module))
                else:
                    kwargs[k.arg] = self.eval(k.value, env, module)
            return self.call(fn, args, kwargs, env, module)
        if t is ast.Subscript:
            v = self.eval(e.value, env, module)
            if isinstance(e.slice, ast.Slice):
                sl = slice(*[None if x is None else self.eval(x, env, module) for x in (e.slice.lower, e.slice.upper, e.slice.step)])
            else:
                sl = self.eval(e.slice, env, module)
            return self.subscript(v, sl)
        if t is ast.BoolOp and all(isinstance(x, (ast.Compare, ast.BoolOp)) or (isinstance(x, ast.UnaryOp) and isinstance(x.op, ast.Not)) for x in e.values) \
                and is_pure(e):
            try:
                vals = [self.truth(self.eval(x, env, module)) for x in e.values]
                return And(*vals) if isinstance(e.op, ast.And) else Or(*vals)
            except Raise:
                pass        # fall back to short-circuit evaluation (an operand compares unlike types)
        if t is ast.BoolOp:
            isand = isinstance(e.op, ast.And)
            v = None
            for i, x in enumerate(e.values):
                v = self.eval(x, env, module)
                if i == len(e.values) - 1:
                    return v
                if is_sym(v) and not is_cond(v) and i == len(e.values) - 2 and isinstance(e.values[-1], (ast.Constant, ast.Name)):
                    w = self.eval(e.values[-1], env, module)
                    if (isinstance(w, int) and not isinstance(w, bool)) or (is_sym(w) and not is_cond(w)):
                        # "check or 10" on integers: a value, not a branch
                        return z3.If(v != 0, w, v) if isand else z3.If(v != 0, v, w)
                b = self.tobool(v)
                if isand and not b:
                    return v if not is_cond(v) or isinstance(v, bool) else False
                if not isand and b:
                    return v if not is_cond(v) or isinstance(v, bool) else True
            return v
        if t is ast.UnaryOp:
            v = self.eval(e.operand, env, module)
            if isinstance(e.op, ast.Not):
                return Not(self.truth(v))
            if isinstance(e.op, ast.USub):
                if isinstance(v, (str, FixedStr)) or v is None:
                    raise Raise(TypeError, 'bad operand type for unary -')
                return -v
            if isinstance(e.op, ast.UAdd):
                return v
            if isinstance(e.op, ast.Invert) and isinstance(v, int):
                return ~v
            raise Unsupported('unary op')
        if t is ast.IfExp:
            if is_pure(e):
                c = self.truth(self.eval(e.test, env, module))
                if not isinstance(c, bool):
                    try:
                        a = self.eval(e.body, env, module)
                        b = self.eval(e.orelse, env, module)
                        if (isinstance(a, int) or (is_sym(a) and not is_cond(a))) and (isinstance(b, int) or (is_sym(b) and not is_cond(b))) \
                                and not isinstance(a, bool) and not isinstance(b, bool):
                            return If(c, a, b)
                    except Raise:
                        pass
            return self.eval(e.body if self.tobool(self.eval(e.test, env, module)) else e.orelse, env, module)
        if t is ast.Compare:
            left = self.eval(e.left, env, module)
            res = True
            for op, r in zip(e.ops, e.comparators):
                right = self.eval(r, env, module)
                c = self.compare(op, left, right)
                if len(e.ops) > 1 and is_pure(e):
                    res = And(res, c)
                elif len(e.ops) > 1:
                    # chained comparison short-circuits
                    if not self.ctx.branch(c) if not isinstance(c, bool) else not c:
                        return False
                    res = True
                else:
                    res = c
                left = right
            return res
        if t is ast.BinOp:
            return self.binop(e.op, self.eval(e.left, env, module), self.eval(e.right, env, module))
        if t in (ast.GeneratorExp, ast.ListComp, ast.SetComp):
            r = self.comprehension(e, env, module)
            if t is ast.SetComp:
                return set(r)
            return r
        if t is ast.DictComp:
            out = {}

            def emit(env2):
                k = self.norm_str(self.eval(e.key, env2, module))
                if isinstance(k, FixedStr):
                    k = self.need_concrete(k, 'dict key')
                out[k] = self.eval(e.value, env2, module)
            self.comp(e.generators, 0, dict(env), module, emit)
            return out
        if t is ast.Lambda:
            f = ast.FunctionDef(name='<lambda>', args=e.args, body=[ast.Return(value=e.body)], decorator_list=[], lineno=0)
            return Func(f, module, (self.fnstack[-1] if self.fnstack else '') + '.<lambda>', closure=env)
        if t is ast.JoinedStr:
            out = []
            for v in e.values:
                if isinstance(v, ast.Constant):
                    out += [ord(c) for c in v.value]
                else:
                    if v.format_spec is not None or v.conversion != -1:
                        raise Unsupported('f-string format spec')
                    x = self.eval(v.value, env, module)
                    out += tostr(self.percent('%s', (x,))).chars
            return simp(FixedStr(out))
        if t is ast.Starred:
            raise Unsupported('starred expression')
        raise Unsupported('expr ' + t.__name__)

    def eval_seq(self, elts, env, module):
        out = []
        for x in elts:
            if isinstance(x, ast.Starred):
                out += list(self.iter(self.eval(x.value, env, module)))
            else:
                out.append(self.eval(x, env, module))
        return out

    def getattr(self, base, attr):
        if isinstance(base, types.ModuleType):
            if not hasattr(base, attr):
                try:
                    return importlib.import_module(base.__name__ + '.' + attr)
                except ImportError:
                    raise Raise(AttributeError, 'module %s has no attribute %s' % (base.__name__, attr))
            return self.wrap(getattr(base, attr), base, attr)
        if isinstance(base, type):
            return self.wrap(getattr(base, attr))
        if isinstance(base, SymDate):
            if attr in ('year', 'month', 'day'):
                return {'year': base.y, 'month': base.m, 'day': base.d}[attr]
        if isinstance(base, (_dt.date, _dt.datetime)) and attr in ('year', 'month', 'day'):
            return getattr(base, attr)
        if isinstance(base, Func) and attr in ('__name__', '__doc__'):
            return getattr(base.pyfunc, attr) if base.pyfunc else base.node.name
        if base is None:
            raise Raise(AttributeError, "'NoneType' object has no attribute %r" % attr)
        a = self.object_getattr(base, attr)
        if a is not NotImplemented:
            return a
        return BoundMethod(base, attr)

    def extern_call(self, fn, args, kwargs):
        return NotImplemented

    def object_getattr(self, base, attr):
        if hasattr(base, '__class__') and base.__class__.__module__.startswith('stdnum') and not callable(getattr(base, attr, None)):
            if hasattr(base, attr):
                return self.wrap(getattr(base, attr), base, attr)
        return NotImplemented

    def comprehension(self, e, env, module):
        if len(e.generators) == 1:
            it = self.eval(e.generators[0].iter, env, module)
            if isinstance(it, AbstractStr):
                it = self.materialise(it)
            if isinstance(it, (LongStr, OpaqueSeq)):
                return self.long_comprehension(e, it, env, module)
            out = []
            g = e.generators[0]
            for item in self.iter(it):
                env2 = dict(env)
                self.assign(g.target, item, env2, module)
                if all(self.tobool(self.eval(c, env2, module)) for c in g.ifs):
                    out.append(self.eval(e.elt, env2, module))
            return out
        out = []
        self.comp(e.generators, 0, dict(env), module, lambda env2: out.append(self.eval(e.elt, env2, module)))
        return out

    def comp(self, gens, k, env, module, emit):
        if k == len(gens):
            emit(env)
            return
        g = gens[k]
        for item in self.iter(self.eval(g.iter, env, module)):
            env2 = dict(env)
            self.assign(g.target, item, env2, module)
            if all(self.tobool(self.eval(c, env2, module)) for c in g.ifs):
                self.comp(gens, k + 1, env2, module, emit)

    def generic_elem(self, it):
        """a generic element of a long string / opaque sequence"""
        ctx = self.ctx
        if isinstance(it, LongStr):
            d = it.cls.union(ISet([(10, 10)])) if it.lastnl else it.cls
            return FixedStr([ctx.fresh_char(d, 'x')])
        return it.elem

    def long_comprehension(self, e, it, env, module):
        """generic-element rule: the body is executed once for an arbitrary element; an exception possible for it is
        possible for the whole comprehension; the result is a sequence of unknown length of such values"""
        ctx = self.ctx
        g = e.generators[0]
        x = self.generic_elem(it)
        env2 = dict(env)
        self.assign(g.target, x, env2, module)
        ctx.mark_approx('comprehension over a string of unbounded length')
        cond = None
        for c in g.ifs:
            cc = self.truth(self.eval(c, env2, module))
            cond = cc if cond is None else And(cond, cc)
        # the element expression, under "some element passes the filter"
        saved_pos = ctx.pos
        if cond is not None and not ctx.branch(ctx.fresh_bool('someelem')):
            return OpaqueSeq(None, it, False)
        if cond is not None:
            ctx.assume(cond)
        elem = self.eval(e.elt, env2, module)
        return OpaqueSeq(elem, it, cond)

    # ------------------------------------------------------------------ comparison / arithmetic
    def compare_eq(self, a, b):
        return self.compare(ast.Eq(), a, b)

    def compare(self, op, a, b):
        t = type(op)
        if isinstance(a, AbstractStr):
            a = self.materialise(a)
        if isinstance(b, AbstractStr):
            b = self.materialise(b)
        if t in (ast.In, ast.NotIn):
            r = self.contains(b, a)
            return r if t is ast.In else Not(r)
        if t in (ast.Is, ast.IsNot):
            if isinstance(a, (FixedStr, LongStr)) or isinstance(b, (FixedStr, LongStr)) or is_sym(a) or is_sym(b):
                r = False if (a is None or b is None or isinstance(a, bool) or isinstance(b, bool)) else None
                if r is None:
                    raise Unsupported('identity comparison of symbolic values')
            else:
                r = a is b
            return r if t is ast.Is else not r
        la, lb = isinstance(a, LongStr), isinstance(b, LongStr)
        if la or lb:
            other = b if la else a
            if t in (ast.Eq, ast.NotEq) and not isinstance(other, LongStr):
                return t is ast.NotEq       # the driver guarantees L exceeds every literal in the code
            raise Unsupported('comparison with a long string (%s)' % t.__name__)
        a, b = self.norm_str(a), self.norm_str(b)
        sa, sb = isinstance(a, (str, FixedStr)), isinstance(b, (str, FixedStr))
        if sa and sb:
            if t is ast.Eq:
                return str_eq(a, b)
            if t is ast.NotEq:
                return Not(str_eq(a, b))
            if t is ast.Lt:
                return str_le(a, b, True)
            if t is ast.LtE:
                return str_le(a, b, False)
            if t is ast.Gt:
                return str_le(b, a, True)
            if t is ast.GtE:
                return str_le(b, a, False)
        if isinstance(a, (SymDate, _dt.date)) and isinstance(b, (SymDate, _dt.date)):
            def key(d):
                if isinstance(d, SymDate):
                    return d.y * 10000 + d.m * 100 + d.d
                return d.year * 10000 + d.month * 100 + d.day
            ka, kb = key(a), key(b)
            if (isinstance(a, SymDate) and a.has_time) != (isinstance(b, SymDate) and b.has_time) and t not in (ast.Eq, ast.NotEq):
                raise Raise(TypeError, "can't compare datetime.datetime to datetime.date")
            if isinstance(ka, int) and isinstance(kb, int):
                return {ast.Lt: ka < kb, ast.LtE: ka <= kb, ast.Gt: ka > kb, ast.GtE: ka >= kb, ast.Eq: ka == kb, ast.NotEq: ka != kb}[t]
            if (isinstance(a, SymDate) and a.has_time) or (isinstance(b, SymDate) and b.has_time):
                # a datetime with an unknown time of day against another: equality of dates does not decide the order
                if t in (ast.Lt, ast.Gt, ast.LtE, ast.GtE):
                    lt, gt = ka < kb, ka > kb
                    tie = self.ctx.fresh_bool('tod')
                    return {ast.Lt: z3.Or(lt, z3.And(ka == kb, tie)), ast.Gt: z3.Or(gt, z3.And(ka == kb, tie)),
                            ast.LtE: z3.Or(lt, z3.And(ka == kb, tie)), ast.GtE: z3.Or(gt, z3.And(ka == kb, tie))}[t]
            return {ast.Lt: ka < kb, ast.LtE: ka <= kb, ast.Gt: ka > kb, ast.GtE: ka >= kb, ast.Eq: ka == kb, ast.NotEq: ka != kb}[t]
        if t in (ast.Eq, ast.NotEq):
            if sa != sb:
                return t is ast.NotEq          # str vs non-str
            if a is None or b is None:
                r = (a is None and b is None)
                return r if t is ast.Eq else not r
            if isinstance(a, (tuple, list)) and isinstance(b, (tuple, list)):
                if type(a) is not type(b):
                    return t is ast.NotEq
                r = And(*[self.compare_eq(x, y) for x, y in zip(a, b)]) if len(a) == len(b) else False
                return r if t is ast.Eq else Not(r)
            if isinstance(a, dict) and isinstance(b, dict):
                if set(a) != set(b):
                    return t is ast.NotEq
                r = And(*[self.compare_eq(a[k], b[k]) for k in a])
                return r if t is ast.Eq else Not(r)
            if is_cond(a) or is_cond(b):
                if isinstance(a, bool) and isinstance(b, bool):
                    return (a == b) if t is ast.Eq else (a != b)
                if is_cond(a) and is_cond(b):
                    r = toz3(a) == toz3(b)
                    return r if t is ast.Eq else z3.Not(r)
                # bool vs int
                ai = If(a, 1, 0) if is_cond(a) else a
                bi = If(b, 1, 0) if is_cond(b) else b
                return Eq(ai, bi) if t is ast.Eq else Not(Eq(ai, bi))
            if isinstance(a, (Opaque, types.ModuleType)) or isinstance(b, (Opaque, types.ModuleType)):
                if a is b:
                    return t is ast.Eq
                raise Unsupported('equality with an opaque value')
            return Eq(a, b) if t is ast.Eq else Not(Eq(a, b))
        if sa or sb or a is None or b is None or isinstance(a, (tuple, list, dict)) or isinstance(b, (tuple, list, dict)):
            if isinstance(a, tuple) and isinstance(b, tuple) and all(isinstance(x, int) for x in a + b):
                return {ast.Lt: a < b, ast.LtE: a <= b, ast.Gt: a > b, ast.GtE: a >= b}[t]
            raise Raise(TypeError, "ordering comparison not supported between these types")
        if is_cond(a):
            a = If(a, 1, 0)
        if is_cond(b):
            b = If(b, 1, 0)
        return {ast.Lt: lambda: a < b, ast.LtE: lambda: a <= b, ast.Gt: lambda: a > b, ast.GtE: lambda: a >= b}[t]()

    def binop(self, op, a, b):
        ctx = self.ctx
        t = type(op)
        if isinstance(a, AbstractStr):
            a = self.materialise(a)
        if isinstance(b, AbstractStr):
            b = self.materialise(b)
        sa, sb = isinstance(a, (str, FixedStr, LongStr)), isinstance(b, (str, FixedStr, LongStr))
        if is_cond(a) and not isinstance(a, bool):
            a = If(a, 1, 0)
        if is_cond(b) and not isinstance(b, bool):
            b = If(b, 1, 0)
        if t is ast.Add:
            if sa and sb:
                if isinstance(a, LongStr) or isinstance(b, LongStr):
                    if isinstance(a, LongStr) and not isinstance(b, LongStr):
                        bb = tostr(b)
                        return LongStr(a.pre, (a.suf + bb.chars)[-K_ENDS:], a.L + len(bb), FULL, False)
                    if isinstance(b, LongStr) and not isinstance(a, LongStr):
                        aa = tostr(a)
                        return LongStr((aa.chars + b.pre)[:K_ENDS], b.suf, b.L + len(aa), FULL, b.lastnl)
                    raise Unsupported('concatenation of two long strings')
                if isinstance(a, str) and isinstance(b, str):
                    return a + b
                return FixedStr(tostr(a).chars + tostr(b).chars)
            if sa or sb:
                raise Raise(TypeError, 'can only concatenate str to str')
            if isinstance(a, (list, tuple)) and isinstance(b, (list, tuple)):
                if type(a) is not type(b):
                    raise Raise(TypeError, 'can only concatenate like sequences')
                return a + b
            if a is None or b is None or isinstance(a, (list, tuple, dict)) or isinstance(b, (list, tuple, dict)):
                raise Raise(TypeError, 'unsupported operand types for +')
            if isinstance(a, (SymDate, _dt.date)) or isinstance(b, (SymDate, _dt.date)):
                raise Unsupported('date arithmetic')
            return a + b
        if t is ast.Mult:
            if (sa and isinstance(b, int)) or (sb and isinstance(a, int)):
                s, k = (a, b) if sa else (b, a)
                if isinstance(s, str):
                    return s * k
                if isinstance(s, FixedStr):
                    return FixedStr(s.chars * max(k, 0))
                raise Unsupported('repeat of a long string')
            if isinstance(a, (tuple, list)) and isinstance(b, int) or isinstance(b, (tuple, list)) and isinstance(a, int):
                return a * b
            if sa or sb or a is None or b is None:
                if (sa and is_sym(b)) or (sb and is_sym(a)):
                    raise Unsupported('string repeated a symbolic number of times')
                raise Raise(TypeError, 'unsupported operand types for *')
            return a * b
        if t is ast.Mod and isinstance(a, (str, FixedStr)):
            fmt = self.norm_str(a)
            if not isinstance(fmt, str):
                raise Unsupported('symbolic format string')
            return self.percent(fmt, b)
        if sa or sb or a is None or b is None or isinstance(a, (tuple, list, dict)) or isinstance(b, (tuple, list, dict)):
            raise Raise(TypeError, 'unsupported operand types for %s' % t.__name__)
        if isinstance(a, (SymDate, _dt.date)) or isinstance(b, (SymDate, _dt.date)):
            if t is ast.Sub:
                return self.date_sub(a, b)
            raise Unsupported('date arithmetic')
        if isinstance(a, float) or isinstance(b, float):
            raise Unsupported('floating point')
        conc_ = isinstance(a, int) and isinstance(b, int)
        if t is ast.Sub:
            return a - b
        if t is ast.Mod:
            if conc_:
                if b == 0:
                    raise Raise(ZeroDivisionError, 'modulo by zero')
                return a % b
            if isinstance(b, int):
                if b == 0:
                    raise Raise(ZeroDivisionError, 'modulo by zero')
                if b > 0:
                    return a % b
                return -((-a) % (-b))
            ctx.require(b != 0, ZeroDivisionError, 'modulo by zero', self.site('%'))
            if ctx.entails(b > 0):
                return a % b
            raise Unsupported('modulo by a possibly negative symbolic divisor')
        if t is ast.FloorDiv:
            if conc_:
                if b == 0:
                    raise Raise(ZeroDivisionError, 'division by zero')
                return a // b
            if isinstance(b, int):
                if b == 0:
                    raise Raise(ZeroDivisionError, 'division by zero')
                if b > 0:
                    return a / b      # z3 integer division floors for a positive divisor
                return (-a) / (-b)
            ctx.require(b != 0, ZeroDivisionError, 'division by zero', self.site('//'))
            if ctx.entails(b > 0):
                return a / b
            raise Unsupported('floor division by a possibly negative symbolic divisor')
        if t is ast.Div:
            raise Unsupported('true division')
        if t is ast.Pow:
            if conc_:
                return a ** b
            if isinstance(b, int) and 0 <= b <= 4:
                r = 1
                for _ in range(b):
                    r = r * a
                return r
            raise Unsupported('symbolic power')
        if conc_:
            if t is ast.BitAnd:
                return a & b
            if t is ast.BitOr:
                return a | b
            if t is ast.BitXor:
                return a ^ b
            if t is ast.LShift:
                return a << b
            if t is ast.RShift:
                return a >> b
        if t is ast.LShift and isinstance(b, int):
            return a * (2 ** b)
        if t is ast.RShift and isinstance(b, int):
            return a / (2 ** b)
        if t is ast.BitAnd and isinstance(b, int) and b >= 0 and (b & (b + 1)) == 0:
            return a % (b + 1)
        if t is ast.BitAnd and (isinstance(a, int) or isinstance(b, int)):
            # a concrete non-negative mask: bit k of an integer x (two's complement, any sign) is floor(x / 2**k) mod 2
            x_, c_ = (b, a) if isinstance(a, int) else (a, b)
            if not isinstance(c_, bool) and 0 <= c_ < (1 << 64):
                r = 0
                for k in range(c_.bit_length()):
                    if (c_ >> k) & 1:
                        r = r + ((x_ / (2 ** k)) % 2) * (2 ** k)
                return r
        raise Unsupported('binop %s on symbolic ints' % t.__name__)

    def date_sub(self, a, b):
        raise Unsupported('date subtraction')

    # ------------------------------------------------------------------ statements
    def assign(self, target, v, env, module):
        if isinstance(target, ast.Name):
            env[target.id] = v
        elif isinstance(target, (ast.Tuple, ast.List)):
            if isinstance(v, (LongStr, OpaqueSeq)):
                raise Raise(ValueError, 'too many values to unpack')
            items = self.iter(v)
            if any(isinstance(t, ast.Starred) for t in target.elts):
                raise Unsupported('starred assignment')
            if len(items) != len(target.elts):
                raise Raise(ValueError, 'unpack: expected %d values, got %d' % (len(target.elts), len(items)), self.site('unpack'))
            for t, x in zip(target.elts, items):
                self.assign(t, x, env, module)
        elif isinstance(target, ast.Subscript):
            obj = self.eval(target.value, env, module)
            key = self.eval(target.slice, env, module)
            key = self.norm_str(key)
            if isinstance(key, FixedStr):
                key = self.need_concrete(key, 'store key')
            if isinstance(obj, (dict, list)) and not is_sym(key):
                try:
                    obj[key] = v
                except (IndexError, TypeError) as e:
                    raise Raise(type(e), str(e))
            else:
                raise Unsupported('store subscript')
        elif isinstance(target, ast.Attribute):
            raise Unsupported('attribute store')
        else:
            raise Unsupported('assign target')

    def block(self, stmts, env, module):
        for s in stmts:
            self.stmt(s, env, module)

    def exc_classes(self, h, env, module):
        if h.type is None:
            return (BaseException,)
        classes = self.eval(h.type, env, module)
        classes = classes if isinstance(classes, tuple) else (classes,)
        return tuple(c[1] if isinstance(c, tuple) else c for c in classes)

    def stmt(self, s, env, module):
        ctx = self.ctx
        t = type(s)
        self.cur = s
        if t is ast.Expr:
            if isinstance(s.value, ast.Constant):
                return
            self.eval(s.value, env, module)
            return
        if t is ast.Assign:
            v = self.eval(s.value, env, module)
            for tg in s.targets:
                self.assign(tg, v, env, module)
            return
        if t is ast.AugAssign:
            if isinstance(s.target, ast.Name):
                cur = self.resolve(s.target.id, env, module)
            elif isinstance(s.target, ast.Subscript):
                cur = self.eval(ast.Subscript(value=s.target.value, slice=s.target.slice, ctx=ast.Load()), env, module)
            else:
                raise Unsupported('augmented assignment target')
            v = self.binop(s.op, cur, self.eval(s.value, env, module))
            self.assign(s.target, v, env, module)
            return
        if t is ast.Return:
            raise ReturnSig(self.eval(s.value, env, module) if s.value else None)
        if t is ast.If:
            if self.tobool(self.eval(s.test, env, module)):
                self.block(s.body, env, module)
            else:
                self.block(s.orelse, env, module)
            return
        if t is ast.Raise:
            if s.exc is None:
                raise Unsupported('bare raise')
            v = self.eval(s.exc, env, module)
            if isinstance(v, tuple) and len(v) == 2 and v[0] == 'exc':
                raise Raise(v[1], 'raise', self.site('raise'))
            if isinstance(v, type) and issubclass(v, BaseException):
                raise Raise(v, 'raise', self.site('raise'))
            raise Unsupported('raise %r' % (v,))
        if t is ast.Try:
            try:
                self.block(s.body, env, module)
            except Raise as r:
                for h in s.handlers:
                    if issubclass(r.cls, self.exc_classes(h, env, module)):
                        if h.name:
                            env[h.name] = ('excinst', r.cls)
                        try:
                            self.block(h.body, env, module)
                        finally:
                            if s.finalbody:
                                self.block(s.finalbody, env, module)
                        break
                else:
                    if s.finalbody:
                        self.block(s.finalbody, env, module)
                    raise
                return
            except (ReturnSig, BreakSig, ContinueSig):
                if s.finalbody:
                    self.block(s.finalbody, env, module)
                raise
            else:
                self.block(s.orelse, env, module)
                if s.finalbody:
                    self.block(s.finalbody, env, module)
            return
        if t is ast.For:
            it = self.eval(s.iter, env, module)
            if isinstance(it, AbstractStr):
                it = self.materialise(it)
            if isinstance(it, (LongStr, OpaqueSeq)):
                return self.long_for(s, it, env, module)
            broke = False
            for item in self.iter(it):
                self.assign(s.target, item, env, module)
                try:
                    self.block(s.body, env, module)
                except BreakSig:
                    broke = True
                    break
                except ContinueSig:
                    continue
            if not broke:
                self.block(s.orelse, env, module)
            return
        if t is ast.While:
            k = 0
            while self.tobool(self.eval(s.test, env, module)):
                k += 1
                if k > self.while_bound:
                    raise Unsupported('while loop needs a contract (more than %d iterations)' % self.while_bound)
                try:
                    self.block(s.body, env, module)
                except BreakSig:
                    return
                except ContinueSig:
                    continue
            self.block(s.orelse, env, module)
            return
        if t is ast.Pass:
            return
        if t is ast.Break:
            raise BreakSig()
        if t is ast.Continue:
            raise ContinueSig()
        if t is ast.ImportFrom:
            try:
                m = importlib.import_module(s.module)
            except ImportError:
                raise Raise(ImportError, s.module)
            for a in s.names:
                try:
                    env[a.asname or a.name] = self.wrap(getattr(m, a.name), m, a.name)
                except AttributeError:
                    try:
                        env[a.asname or a.name] = importlib.import_module(s.module + '.' + a.name)
                    except ImportError:
                        raise Raise(ImportError, a.name)
            return
        if t is ast.Import:
            for a in s.names:
                try:
                    m = importlib.import_module(a.name)
                except ImportError:
                    raise Raise(ImportError, a.name)
                if a.asname:
                    env[a.asname] = m
                else:
                    env[a.name.split('.')[0]] = importlib.import_module(a.name.split('.')[0])
            return
        if t is ast.FunctionDef:
            env[s.name] = Func(s, module, (self.fnstack[-1] if self.fnstack else '') + '.' + s.name, closure=env)
            return
        if t is ast.Global:
            return
        if t is ast.Assert:
            if not self.tobool(self.eval(s.test, env, module)):
                raise Raise(AssertionError, 'assert')
            return
        if t is ast.Delete:
            raise Unsupported('del')
        if t is ast.With:
            raise Unsupported('with statement')
        raise Unsupported('stmt ' + t.__name__)

    while_bound = 64

    def long_for(self, s, it, env, module):
        """havoc rule for a loop over a string of unbounded length: the body is checked once for a generic element
        with every variable it assigns havocked (ints only); afterwards those variables are unknown"""
        ctx = self.ctx
        assigned = set()
        for n in ast.walk(ast.Module(body=s.body, type_ignores=[])):
            if isinstance(n, ast.Name) and isinstance(n.ctx, ast.Store):
                assigned.add(n.id)
            if isinstance(n, (ast.Break, ast.Return, ast.Yield)):
                raise Unsupported('loop over a long string with break/return')
        ctx.mark_approx('loop over a string of unbounded length (havoc rule)')

        def havoc():
            for name in assigned:
                if name in env:
                    v = env[name]
                    if isinstance(v, bool) or is_cond(v):
                        env[name] = ctx.fresh_bool('hv')
                    elif isinstance(v, int) or is_sym(v):
                        env[name] = ctx.fresh_int('hv')
                    else:
                        raise Unsupported('havoc of a non-integer loop variable %s' % name)
        havoc()
        x = self.generic_elem(it)
        self.assign(s.target, x, env, module)
        try:
            self.block(s.body, env, module)
        except ContinueSig:
            pass
        havoc()
        for name in assigned:
            if name not in env:
                raise Unsupported('loop variable %s first assigned in a havocked loop' % name)
        self.block(s.orelse, env, module)
