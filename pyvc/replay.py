"""Replay of counterexamples on the real code of the working tree (same interpreter version as /venv)."""
import contextlib
import datetime as _real_dt
import importlib
import json
import os
import sys
import types

from . import front


@contextlib.contextmanager
def patched_today(ymd):
    """make date.today()/datetime.now() in every stdnum module return the given date"""
    if ymd is None:
        yield
        return
    y, m, d = ymd

    class FakeDate(_real_dt.date):
        @classmethod
        def today(cls):
            return _real_dt.date(y, m, d)

    class FakeDateTime(_real_dt.datetime):
        @classmethod
        def now(cls, tz=None):
            return _real_dt.datetime(y, m, d, 12, 0, 0)

        @classmethod
        def today(cls):
            return _real_dt.datetime(y, m, d, 12, 0, 0)

        @classmethod
        def utcnow(cls):
            return _real_dt.datetime(y, m, d, 12, 0, 0)

    fake = types.SimpleNamespace(**{k: getattr(_real_dt, k) for k in dir(_real_dt) if not k.startswith('__')})
    fake.date = FakeDate
    fake.datetime = FakeDateTime
    saved = []
    for name, mod in list(sys.modules.items()):
        if not name.startswith('stdnum') or mod is None:
            continue
        for attr in ('datetime',):
            v = mod.__dict__.get(attr)
            if v is _real_dt:
                saved.append((mod, attr, v))
                mod.__dict__[attr] = fake
            elif v is _real_dt.datetime:
                saved.append((mod, attr, v))
                mod.__dict__[attr] = FakeDateTime
    try:
        yield
    finally:
        for mod, attr, v in saved:
            mod.__dict__[attr] = v


def resolve(qual):
    """'stdnum.at.vnr:validate' -> function object (of the working tree)"""
    modname, fn = qual.split(':')
    if modname == front.WSGI_NAME:
        mod = front.load_wsgi()
    else:
        mod = importlib.import_module(modname)
    obj = mod
    for part in fn.split('.'):
        obj = getattr(obj, part)
    return obj


def call_real(qual, args, kwargs=None, today=None):
    """-> ('return', value) | ('raise', exception class name, message)"""
    f = resolve(qual)
    with patched_today(tuple(today) if today else None):
        try:
            return ('return', f(*args, **(kwargs or {})))
        except BaseException as e:    # noqa: B902 - this is the point
            if isinstance(e, (KeyboardInterrupt, SystemExit)):
                raise
            return ('raise', type(e).__name__, str(e)[:200], [c.__name__ for c in type(e).__mro__])


def is_validation_error(res):
    return res[0] == 'raise' and 'ValidationError' in res[3]


def write_replay(prop, name, data):
    """write /verif/replays/<prop>/<name>.json and return its path"""
    base = os.path.join(os.path.dirname(os.path.dirname(os.path.abspath(__file__))), 'replays', prop)
    os.makedirs(base, exist_ok=True)
    safe = ''.join(c if c.isalnum() or c in '._-' else '_' for c in name)[:150]
    path = os.path.join(base, safe + '.json')
    with open(path, 'w') as f:
        json.dump(data, f, indent=1, ensure_ascii=True, default=repr)
    return path
