"""Verdict bookkeeping: obligations, known findings, evidence files, exit codes.

Exit codes: 0 property held on everything explored (KNOWN-FINDING lines allowed), 1 VIOLATION line(s),
2 checker error (crash, zero obligations, cross-check disagreement) - never a verdict about the repository.
"""
import json
import os
import sys
import time

ROOT = os.path.dirname(os.path.dirname(os.path.abspath(__file__)))
KNOWN_PATH = os.path.join(ROOT, 'known_findings.json')

TRUSTED_BASE = [
    'pyvc encoding of Python 3.12 semantics (DESIGN 2.2), guarded by the CPython cross-check',
    'CPython 3.12.1 unicodedata 15.0 / re._parser / datetime tables, generated at run time',
    'z3 5.1.0 (cvc5 1.4.0 / Lean 4.33 where named)',
    'module-level data of the repository is the value CPython computes at import',
]


def load_known():
    if not os.path.exists(KNOWN_PATH):
        return []
    with open(KNOWN_PATH) as f:
        return json.load(f)['findings']


class Report:
    def __init__(self, prop, tier, level, checker_cmd, seed=0):
        self.prop, self.tier, self.level, self.checker_cmd, self.seed = prop, tier, level, checker_cmd, seed
        self.t0 = time.time()
        self.obl = {}               # id -> dict(status, backend, secs, detail)
        self.violations = []        # (key, what, replay path, reproduced)
        self.known_hits = []
        self.errors = []
        self.assumptions = []
        self.samples = []
        self.extra = {}
        self.functions = set()
        self.backends = {}
        self.bounded = []
        self.known = [k for k in load_known() if k['property'] == prop]
        # replay files belong to one run: remove those of earlier runs of this property
        d = os.path.join(ROOT, 'replays', prop)
        if os.path.isdir(d):
            for f in os.listdir(d):
                try:
                    os.remove(os.path.join(d, f))
                except OSError:
                    pass

    # -- obligations
    def add(self, oid, status, backend='z3', secs=0.0, detail=None):
        """status: proved | refuted | undecided | bounded | exhaustive"""
        self.obl[oid] = dict(status=status, backend=backend, secs=round(secs, 3), detail=detail)
        b = self.backends.setdefault(backend, dict(obligations=0, secs=0.0))
        b['obligations'] += 1
        b['secs'] = round(b['secs'] + secs, 3)

    def sample(self, s):
        if len(self.samples) < 12:
            self.samples.append(s)

    def error(self, msg):
        self.errors.append(msg)
        print('CHECKER-ERROR: %s' % msg)

    # -- refutations
    def match_known(self, module, key):
        for k in self.known:
            if k.get('status', 'known') != 'known':
                continue
            if k['module'] == module and k['key'] == key:
                return k
        return None

    def refuted(self, oid, module, key, what, replay_data, reproduced, still_fails=None, approx=False):
        """a refuted obligation.  reproduced: the counterexample replays on the real code.
        still_fails(known_entry) -> bool re-runs the recorded witness of a known finding."""
        from .replay import write_replay
        k = self.match_known(module, key)
        if k is not None and reproduced:
            ok = True
            if still_fails is not None:
                try:
                    ok = bool(still_fails(k))
                except Exception as e:      # noqa: B902
                    ok = False
            if ok:
                line = 'KNOWN-FINDING: property=%s %s %s input=%r' % (self.prop, module, k.get('what', what), k.get('witness', {}).get('input'))
                if line not in self.known_hits:
                    self.known_hits.append(line)
                self.add(oid, 'refuted-known', detail=key)
                return 'known'
        if not reproduced:
            if approx:
                # an over-approximating abstraction took part in the model: undecided, never an alarm
                self.add(oid, 'undecided', detail='model does not replay (abstraction involved): ' + key)
                return 'undecided'
            replay_data = dict(replay_data, obligation=oid, note='no failing input found: the obligation is refuted by the '
                               'solver but the model did not replay on the real code')
        seen = self.__dict__.setdefault('_seen_viol', {})
        if (module, key) in seen:
            seen[(module, key)] += 1          # the same finding met again: one VIOLATION line per distinct finding
            self.add(oid, 'refuted', detail=key)
            return 'violation'
        seen[(module, key)] = 1
        path = write_replay(self.prop, oid, dict(replay_data, property=self.prop, module=module, key=key, what=what))
        self.violations.append((key, what, path, reproduced))
        self.add(oid, 'refuted', detail=key)
        return 'violation'

    # -- finish
    def counts(self):
        c = {}
        for o in self.obl.values():
            c[o['status']] = c.get(o['status'], 0) + 1
        return c

    def finish(self, explanation=None, exhaustive=None):
        c = self.counts()
        generated = len(self.obl)
        proved = c.get('proved', 0) + c.get('exhaustive', 0)
        counted = generated - c.get('refuted-known', 0) - c.get('bounded', 0) - c.get('undecided', 0) - c.get('refuted', 0)
        if generated == 0:
            self.error('zero obligations generated')
        for line in self.known_hits:
            print(line)
        for key, what, path, rep in self.violations:
            print('VIOLATION property=%s replay=%s%s' % (self.prop, path, '' if rep else ' no-failing-input-found'))
        cov = dict(
            obligations=max(counted, 0), discharged=proved, obligations_generated=generated,
            refuted_known=c.get('refuted-known', 0), refuted_new=c.get('refuted', 0), undecided=c.get('undecided', 0),
            bounded=c.get('bounded', 0), checker_cmd=self.checker_cmd, trusted_base=TRUSTED_BASE,
            functions_under_contract=len(self.functions), backends=self.backends, samples=self.samples,
            known_findings=self.known_hits, bounded_functions=self.bounded,
            undecided_list=[k for k, o in self.obl.items() if o['status'] == 'undecided'][:200],
        )
        if explanation:
            cov['explanation'] = explanation
        if exhaustive is not None:
            cov['exhaustive'] = exhaustive
        cov.update(self.extra)
        # the exploration-style keys, measured: evaluations = obligations generated, distinct = distinct proved ones
        cov.setdefault('evaluations', generated)
        cov.setdefault('distinct_nontrivial', proved)
        cov.setdefault('rule', 'one obligation per (function, length class / lemma instance); non-trivial = generated from '
                               'the real source and discharged by the named back end')
        ev = dict(property_id=self.prop, tier=self.tier, seed=self.seed, level=self.level, coverage=cov,
                  assumptions=self.assumptions, wall_s=round(time.time() - self.t0, 2), violations=len(self.violations))
        os.makedirs(os.path.join(ROOT, 'evidence'), exist_ok=True)
        with open(os.path.join(ROOT, 'evidence', self.prop + '.json'), 'w') as f:
            json.dump(ev, f, indent=1, ensure_ascii=True, default=repr)
        print('%s %s: %d obligations generated, %d discharged, %d known findings, %d undecided, %d bounded, %d violations, %.1fs'
              % (self.prop, self.tier, generated, proved, c.get('refuted-known', 0), c.get('undecided', 0), c.get('bounded', 0),
                 len(self.violations), time.time() - self.t0))
        if self.violations:
            return 1
        if self.errors:
            return 2
        return 0
