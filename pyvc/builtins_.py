"""Contracts of the Python builtins and standard-library functions the library calls."""
import re
import types
import functools
import collections
import datetime as _dt
import calendar as _cal
import z3

from .isets import ISet, FULL, EMPTY, DIGITS, cls
from .sym import (U, UAnd, And, Or, Not, Eq, If, in_set, is_sym, is_cond, is_charvar, FixedStr, LongStr, AbstractStr,
                  Opaque, SymDate, Match, LazySel, tostr, conc, simp, str_eq, toz3)
from .ctx import Raise, Unsupported, Infeasible
from .regex import RegexM, Unsupported as RxUnsupported


def _isconc(v):
    if isinstance(v, (str, int, float, bool, bytes, type(None), re.Pattern, types.ModuleType, type)):
        return True
    if isinstance(v, (tuple, list, set, frozenset)):
        return all(_isconc(x) for x in v)
    if isinstance(v, dict):
        return all(_isconc(k) and _isconc(x) for k, x in v.items())
    return False


def sym_date(I, y, m, d, has_time=False):
    from .interp import days_in_month
    ctx = I.ctx
    for x in (y, m, d):
        if isinstance(x, (str, FixedStr, LongStr)) or x is None:
            raise Raise(TypeError, 'an integer is required')
    if isinstance(y, int) and isinstance(m, int) and isinstance(d, int):
        try:
            _dt.date(y, m, d)
        except ValueError as e:
            raise Raise(ValueError, str(e), I.site('date'))
        return SymDate(y, m, d, has_time)
    ok = And(y >= 1, y <= 9999, m >= 1, m <= 12, d >= 1, d <= days_in_month(y, m))
    ctx.require(ok, ValueError, 'date(y, m, d) out of range', I.site('date'))
    return SymDate(y, m, d, has_time)


def today(I, has_time=False):
    ctx = I.ctx
    if ctx.today is None:
        from .interp import days_in_month
        y, m, d = ctx.fresh_int('ty'), ctx.fresh_int('tm'), ctx.fresh_int('td')
        ctx.add(z3.And(y >= 1, y <= 9999, m >= 1, m <= 12, d >= 1, d <= days_in_month(y, m)))
        ctx.today = (y, m, d)
    y, m, d = ctx.today
    return SymDate(y, m, d, has_time)


def strptime(I, s, fmt):
    """datetime.datetime.strptime for formats made of %Y %y %m %d and literals, on a FixedStr"""
    ctx = I.ctx
    if isinstance(s, AbstractStr):
        s = I.materialise(s)
    s = I.norm_str(s)
    if isinstance(s, str) and isinstance(fmt, str):
        try:
            r = _dt.datetime.strptime(s, fmt)
        except ValueError as e:
            raise Raise(ValueError, str(e)[:60], I.site('strptime'))
        return SymDate(r.year, r.month, r.day, True)
    if not isinstance(s, FixedStr) or not isinstance(fmt, str):
        raise Unsupported('strptime on %r' % type(s).__name__)
    # strptime compiles the format into a regex; %d/%m accept 1 or 2 digits, %Y exactly 4, %y exactly 2; all \d
    # in that regex are ASCII-only?  No: re without ASCII flag, \d matches any Nd.  int() of those is the value.
    pat = ''
    i = 0
    names = []
    while i < len(fmt):
        if fmt[i] == '%' and i + 1 < len(fmt):
            k = fmt[i + 1]
            if k == 'Y':
                pat += r'(?P<Y>\d\d\d\d)'
            elif k == 'y':
                pat += r'(?P<y>\d\d)'
            elif k == 'm':
                pat += r'(?P<m>1[0-2]|0[1-9]|[1-9])'
            elif k == 'd':
                pat += r'(?P<d>3[0-1]|[1-2]\d|0[1-9]|[1-9]| [1-9])'
            else:
                raise Unsupported('strptime directive %' + k)
            names.append(k)
            i += 2
        else:
            pat += re.escape(fmt[i])
            i += 1
    rx = RegexM.get(pat + r'\Z', re.I)
    m = I.regex_match(rx, s, 'match')
    if m is None:
        raise Raise(ValueError, 'time data does not match format', I.site('strptime'))
    vals = {}
    for k in names:
        g = I.match_method(m, 'group', [k])
        g = tostr(g)
        if k == 'd' and len(g) == 2 and g.chars[0] == 32:
            g = FixedStr(g.chars[1:])
        vals[k] = I.to_int(g)
    y = vals.get('Y')
    if y is None:
        yy = vals.get('y')
        if yy is None:
            y = 1900
        else:
            y = If(yy <= 68, 2000 + yy, 1900 + yy) if is_sym(yy) else (2000 + yy if yy <= 68 else 1900 + yy)
    return sym_date(I, y, vals.get('m', 1), vals.get('d', 1), True)


def call_builtin(I, fn, args, kwargs, env, module):
    from .interp import Func, BoundMethod, OpaqueSeq, days_in_month
    ctx = I.ctx
    args = [I.materialise(a) if isinstance(a, AbstractStr) and fn not in (isinstance, str) else a for a in args]
    a0 = args[0] if args else None
    if fn is len:
        v = a0
        if isinstance(v, LongStr):
            return v.L
        if isinstance(v, (str, FixedStr, tuple, list, dict, set, frozenset, bytes)):
            return len(v)
        if isinstance(v, Opaque) and v.kind == 'bytes':
            return len(v.info)
        if isinstance(v, OpaqueSeq):
            raise Unsupported('len of an unbounded sequence')
        if v is None or isinstance(v, (int, bool)) or is_sym(v):
            raise Raise(TypeError, 'object has no len()')
        raise Unsupported('len %r' % type(v).__name__)
    if fn is int:
        if not args:
            return 0
        base = args[1] if len(args) > 1 else kwargs.get('base', 10)
        return I.to_int(a0, base)
    if fn is str:
        if not args:
            return ''
        v = a0
        if isinstance(v, (str, FixedStr, LongStr)):
            return v
        if isinstance(v, AbstractStr):
            return v
        if isinstance(v, bool) or v is None or isinstance(v, (float, tuple, list, dict, bytes)):
            return str(v)
        if isinstance(v, int) or (is_sym(v) and not is_cond(v)):
            return I.int_to_str(v)
        if isinstance(v, Opaque):
            if v.kind in ('noniter', 'strseq', 'badseq', 'object'):
                # str() of an arbitrary object: some string we know nothing about
                if 'strval' not in v.__dict__:
                    v.strval = Opaque('anystr')
                raise Unsupported('str() of an arbitrary object')
        raise Unsupported('str(%r)' % type(v).__name__)
    if fn is bool:
        return I.truth(a0) if args else False
    if fn is repr:
        if _isconc(a0):
            return repr(a0)
        raise Unsupported('repr of a symbolic value')
    if fn is sum:
        it = a0
        if isinstance(it, OpaqueSeq):
            r = ctx.fresh_int('sum')
            return r
        t = args[1] if len(args) > 1 else 0
        for x in I.iter(it):
            t = I.binop(__import__('ast').Add(), t, x)
        return t
    if fn is zip:
        seqs = [I.iter(a) for a in args]
        return list(zip(*seqs))
    if fn is enumerate:
        if isinstance(a0, (LongStr, OpaqueSeq)):
            x = I.generic_elem(a0)
            idx = ctx.fresh_int('i')
            ctx.add(idx >= (args[1] if len(args) > 1 else 0))
            return OpaqueSeq((idx, x), a0)
        return list(enumerate(I.iter(a0), *(args[1:])))
    if fn is reversed:
        if isinstance(a0, LongStr):
            return OpaqueSeq(I.generic_elem(a0), a0)
        if isinstance(a0, OpaqueSeq):
            return a0
        return list(reversed(I.iter(a0)))
    if fn is range:
        if any(is_sym(x) for x in args):
            raise Unsupported('range with a symbolic bound')
        return list(range(*args))
    if fn in (tuple, list):
        if not args:
            return fn()
        if isinstance(a0, OpaqueSeq):
            return a0
        if isinstance(a0, LongStr):
            return OpaqueSeq(I.generic_elem(a0), a0)
        return fn(I.iter(a0))
    if fn is sorted:
        items = I.iter(a0)
        if _isconc(items) and not kwargs:
            return sorted(items)
        if len(items) <= 1:
            return list(items)
        raise Unsupported('sorted of symbolic items')
    if fn in (set, frozenset):
        if not args:
            return fn()
        items = I.iter(a0)
        if _isconc(items):
            return fn(items)
        raise Unsupported('set of symbolic items')
    if fn is dict:
        out = {}
        if args:
            src = a0
            if isinstance(src, dict):
                out.update(src)
            else:
                for kv in I.iter(src):
                    k, v = I.iter(kv)
                    k = I.norm_str(k)
                    if isinstance(k, FixedStr):
                        k = I.need_concrete(k, 'dict key')
                    out[k] = v
        out.update(kwargs)
        return out
    if fn is all or fn is any:
        seq = a0
        if isinstance(seq, OpaqueSeq):
            c = seq.elem
            if seq.elem is None:
                return fn is all
            c = I.truth(c)
            if fn is all and isinstance(seq.src, LongStr) and isinstance(c, U) and seq.cond is None:
                if ctx.branch(ctx.fresh_bool('all')):
                    I.long_fact(seq.src, c.s)
                    return True
                return False
            if isinstance(c, bool):
                return c
            return ctx.fresh_bool('quant')
        conds = [I.truth(x) for x in I.iter(seq)]
        return And(*conds) if fn is all else Or(*conds)
    if fn is divmod:
        a, b = args
        import ast as _ast
        return (I.binop(_ast.FloorDiv(), a, b), I.binop(_ast.Mod(), a, b))
    if fn is ord:
        v = tostr(I.norm_str(a0))
        if not isinstance(v, FixedStr):
            raise Raise(TypeError, 'ord() expected string of length 1')
        if len(v) != 1:
            raise Raise(TypeError, 'ord() expected a character')
        return v.chars[0]
    if fn is chr:
        if isinstance(a0, int):
            return chr(a0)
        ctx.require(z3.And(a0 >= 0, a0 <= 0x10FFFF), ValueError, 'chr() arg not in range', I.site('chr'))
        c = ctx.fresh_char(FULL, 'k')
        ctx.add(c == a0)
        return FixedStr([c])
    if fn is pow:
        import ast as _ast
        if len(args) == 3:
            if all(isinstance(x, int) for x in args):
                return pow(*args)
            raise Unsupported('modular pow')
        return I.binop(_ast.Pow(), args[0], args[1])
    if fn is abs:
        if isinstance(a0, int):
            return abs(a0)
        return If(a0 < 0, -a0, a0)
    if fn in (min, max):
        items = I.iter(a0) if len(args) == 1 else args
        if _isconc(list(items)):
            return fn(items)
        r = items[0]
        for x in items[1:]:
            r = If((x < r) if fn is min else (x > r), x, r)
        return r
    if fn is map:
        f = a0
        if isinstance(args[1], (LongStr, OpaqueSeq)):
            x = I.generic_elem(args[1])
            ctx.mark_approx('map over a string of unbounded length')
            return OpaqueSeq(I.call(f, [x], {}, env, module), args[1])
        return [I.call(f, [x], {}, env, module) for x in I.iter(args[1])]
    if fn is filter:
        raise Unsupported('filter')
    if fn is isinstance:
        v, t = args
        tt = t if isinstance(t, tuple) else (t,)
        if isinstance(v, (FixedStr, LongStr, AbstractStr)):
            return str in tt or object in tt
        if is_sym(v) and not is_cond(v):
            return int in tt or object in tt
        if is_cond(v) and not isinstance(v, bool):
            return bool in tt or int in tt
        if isinstance(v, SymDate):
            return _dt.date in tt or (_dt.datetime in tt and v.has_time)
        if isinstance(v, Opaque):
            if v.kind == 'bytes':
                return bytes in tt
            if v.kind in ('noniter', 'object'):
                return object in tt
            raise Unsupported('isinstance of %r' % v)
        return isinstance(v, t)
    if fn is hasattr:
        if isinstance(a0, types.ModuleType) or _isconc(a0):
            return hasattr(a0, args[1])
        raise Unsupported('hasattr on a symbolic value')
    if fn is getattr:
        name = I.norm_str(args[1])
        if isinstance(name, FixedStr):
            name = I.need_concrete(name, 'attribute name')
        if isinstance(a0, types.ModuleType):
            if hasattr(a0, name):
                return I.wrap(getattr(a0, name), a0, name)
            if len(args) > 2:
                return args[2]
            raise Raise(AttributeError, name)
        raise Unsupported('getattr on %r' % type(a0).__name__)
    if fn is callable:
        return isinstance(a0, (Func, types.FunctionType, types.BuiltinFunctionType, type))
    if fn is __import__:
        name = I.norm_str(a0)
        if isinstance(name, FixedStr):
            name = I.need_concrete(name, 'module name')
        import importlib
        try:
            m = importlib.import_module(name)
        except ImportError:
            raise Raise(ImportError, name)
        fromlist = args[3] if len(args) > 3 else kwargs.get('fromlist')
        if fromlist:
            return m
        return importlib.import_module(name.split('.')[0])
    if fn in (globals, locals):
        return {}
    if fn is _dt.date or fn is _dt.datetime:
        if kwargs:
            args = [kwargs.get('year', args[0] if args else None), kwargs.get('month', args[1] if len(args) > 1 else None),
                    kwargs.get('day', args[2] if len(args) > 2 else None)]
        if len(args) < 3:
            raise Raise(TypeError, 'date() needs year, month, day')
        return sym_date(I, args[0], args[1], args[2], fn is _dt.datetime)
    if fn is _dt.date.today or fn is _dt.datetime.today:
        return today(I, fn is _dt.datetime.today)
    if fn is _dt.datetime.now or fn is _dt.datetime.utcnow:
        return today(I, True)
    if fn is _dt.datetime.strptime:
        return strptime(I, args[0], args[1])
    if fn is _dt.timedelta:
        raise Unsupported('timedelta')
    if fn is _cal.monthrange:
        y, m = args
        if isinstance(y, int) and isinstance(m, int):
            return I.native(fn, args, kwargs)
        ctx.require(And(y >= 1, y <= 9999, m >= 1, m <= 12), ValueError, 'monthrange out of range', I.site('monthrange'))
        return (ctx.fresh_int('wd'), days_in_month(y, m))
    if fn in (re.match, re.search, re.fullmatch):
        pat = I.norm_str(a0)
        if not isinstance(pat, str):
            raise Unsupported('symbolic regex pattern')
        flags = kwargs.get('flags', args[2] if len(args) > 2 else 0)
        try:
            rx = RegexM.get(pat, flags)
        except RxUnsupported as e:
            raise Unsupported(str(e))
        except re.error as e:
            raise Raise(re.error, str(e))
        return I.regex_match(rx, args[1], fn.__name__)
    if fn in (re.compile, re.escape):
        cargs = [I.norm_str(a) for a in args]
        if all(_isconc(a) for a in cargs):
            return I.native(fn, cargs, kwargs)
        raise Unsupported('re.%s of a symbolic pattern' % fn.__name__)
    if fn in (re.sub, re.findall, re.split):
        cargs = [I.norm_str(a) for a in args]
        if all(_isconc(a) or isinstance(a, Func) for a in cargs):
            return I.native(fn, cargs, kwargs)
        raise Unsupported('re.%s on a symbolic string' % fn.__name__)
    if fn is functools.reduce:
        f, seq = args[0], args[1]
        items = I.iter(seq)
        if len(args) > 2:
            acc = args[2]
        else:
            if not items:
                raise Raise(TypeError, 'reduce() of empty iterable with no initial value')
            acc, items = items[0], items[1:]
        for x in items:
            acc = I.call(f, [acc, x], {}, env, module)
        return acc
    if fn is collections.defaultdict:
        from .interp import DDict
        d = DDict(*args[1:])
        d.factory = a0
        return d
    # anything else: native call on concrete arguments
    cargs = [I.norm_str(a) if isinstance(a, FixedStr) else a for a in args]
    ckw = {k: (I.norm_str(v) if isinstance(v, FixedStr) else v) for k, v in kwargs.items()}
    modname = getattr(fn, '__module__', None) or getattr(getattr(fn, '__self__', None), '__class__', type(None)).__module__
    if all(_isconc(a) for a in cargs) and all(_isconc(v) for v in ckw.values()):
        name = getattr(fn, '__qualname__', getattr(fn, '__name__', repr(fn)))
        if isinstance(fn, (types.BuiltinFunctionType, types.FunctionType, type, types.MethodType, types.MethodDescriptorType)) or callable(fn):
            if name in ('warn',):
                return None
            return I.native(fn, cargs, ckw)
    h = I.extern_call(fn, args, kwargs)
    if h is not NotImplemented:
        return h
    raise Unsupported('call %s' % (getattr(fn, '__qualname__', getattr(fn, '__name__', fn)),))
