"""Per-module symbolic sweep of validate(): the shared exploration behind C01, C02 and C15.

For every module, option valuation and length class (0..N and the unbounded tail) all paths of validate() are
enumerated; the obligations of the three properties are decided on each path; refutations are replayed on the real
function.  Results are JSON-able so that they can cross process boundaries and be cached by content hash.
"""
import importlib
import inspect
import json
import os
import sys
import time
import traceback
import z3

from . import front, isets, absstr
from .sym import FixedStr, LongStr, AbstractStr, Opaque, is_sym, is_cond, tostr, conc, in_set, Not, Or, str_eq
from .isets import ISet, cls, ASCII
from .ctx import Ctx, Unsupported
from .explore import explore, func, witness_string, today_of, LONG_BOUND
from .absstr import raw_input
from .replay import call_real, is_validation_error

GENERIC = ('stdnum.luhn', 'stdnum.verhoeff', 'stdnum.damm', 'stdnum.iso7064.mod_11_2', 'stdnum.iso7064.mod_37_2',
           'stdnum.iso7064.mod_11_10', 'stdnum.iso7064.mod_37_36', 'stdnum.iso7064.mod_97_10')

# the national letters the property allows (C15)
NATIONAL = {
    'stdnum.de.handelsregisternummer': 'ÄÖÜäöüß',
    'stdnum.mx.rfc': 'Ñ',
    'stdnum.es.referenciacatastral': 'Ñ',
}

OPTION_VALUES = {
    ('stdnum.at.tin', 'office'): [None, 'Graz-Stadt', 'no such office'],
    ('stdnum.de.handelsregisternummer', 'company_form'): [None, 'GmbH', 'no such form'],
    ('stdnum.de.stnr', 'region'): [None, 'Sachsen', 'Bayern', 'no such region'],
    ('stdnum.gs1_128', 'separator'): ['', '\x1d'],
    ('stdnum.mac', 'validate_manufacturer'): [None, True, False],
    ('stdnum.luhn', 'alphabet'): ['0123456789', '0123456789abcdef'],
    ('stdnum.iso7064.mod_37_2', 'alphabet'): ['0123456789ABCDEFGHIJKLMNOPQRSTUVWXYZ*', '0123456789X'],
    ('stdnum.iso7064.mod_37_36', 'alphabet'): ['0123456789ABCDEFGHIJKLMNOPQRSTUVWXYZ', '0123456789'],
}


def option_valuations(mod, fname='validate'):
    import itertools
    sig = inspect.signature(getattr(mod, fname))
    names, choices = [], []
    for p in list(sig.parameters.values())[1:]:
        if p.default is inspect.Parameter.empty:
            continue
        vals = OPTION_VALUES.get((mod.__name__, p.name))
        if vals is None:
            vals = [True, False] if isinstance(p.default, bool) else [p.default]
        names.append(p.name)
        choices.append(vals)
    out = []
    for combo in itertools.product(*choices):
        kw = dict(zip(names, combo))
        out.append({k: v for k, v in kw.items() if v != sig.parameters[k].default or True})
    return out or [{}]


def concretise(ctx, v, model):
    """python value of a symbolic return value under a model"""
    if isinstance(v, (FixedStr, LongStr)):
        return witness_string(ctx, v, model)
    if is_sym(v):
        r = model.eval(v, model_completion=True)
        if z3.is_int_value(r):
            return r.as_long()
        return z3.is_true(r)
    if isinstance(v, tuple):
        return tuple(concretise(ctx, x, model) for x in v)
    if isinstance(v, list):
        return [concretise(ctx, x, model) for x in v]
    return v


def describe_value(v):
    if isinstance(v, FixedStr):
        return 'str[%d]' % len(v)
    if isinstance(v, LongStr):
        return 'str[long]'
    if isinstance(v, str):
        return 'str:%r' % v[:30]
    if is_sym(v):
        return 'bool' if is_cond(v) else 'int'
    return type(v).__name__


_WEIRD = []


def weird_chars():
    """characters that only arise inside multi-character case expansions (the abstraction of upper()/lower() admits them
    on their own): a model that needs one is not evidence"""
    if not _WEIRD:
        from .isets import case_map
        _WEIRD.append(ISet.of([x for img in list(case_map('upper')[1].values()) + list(case_map('lower')[1].values()) for x in img]).minus(ASCII))
    return _WEIRD[0]


def has_weird(s):
    w = weird_chars()
    return isinstance(s, str) and any(w.contains(ord(ch)) for ch in s)


class ModuleSweep:
    def __init__(self, modname, tier='quick', nmax=LONG_BOUND, props=('C01', 'C02', 'C15'), time_limit=None):
        self.modname = modname
        self.mod = importlib.import_module(modname)
        self.tier = tier
        self.nmax = nmax
        self.props = props
        self.qual = modname + ':validate'
        self.time_limit = time_limit or (240 if tier == 'quick' else 1200)
        self.t0 = time.time()
        self.findings = []       # dicts
        self.fkeys = set()
        self.units = []          # per (opts, n): dict(status, paths, accept, secs)
        self.sites = {}          # site -> {'paths': k, 'nonve': k}
        self.stats = dict(paths=0, accept_paths=0, checks=0, fast=0, unknowns=0, c02_nested=0, c15_checked=0,
                          c02_checked=0, solver_s=0.0)
        self.undecided = []
        self.samples = []

    # ------------------------------------------------------------------
    def finding(self, prop, kind, key, **kw):
        k = (prop, kind, key)
        for f in self.findings:
            if (f['property'], f['kind'], f['key']) == k:
                f['count'] += 1
                if kw.get('reproduced') and not f.get('reproduced'):
                    f.update(kw)
                return f
        if not kw.get('reproduced') and isinstance(kw.get('input'), str):
            from .isets import case_map
            weird = ISet.of([x for img in list(case_map('upper')[1].values()) + list(case_map('lower')[1].values()) for x in img]).minus(ASCII)
            if any(weird.contains(ord(ch)) for ch in kw['input']):
                kw['approx'] = True
                kw['approx_why'] = list(kw.get('approx_why') or []) + ['character that only arises from a multi-character case expansion']
        f = dict(property=prop, module=self.modname, kind=kind, key=key, count=1, **kw)
        self.findings.append(f)
        return f

    def run(self):
        f = func(self.mod.validate)
        # the lengths at which the corpus has valid numbers come first: under a time limit the units most likely to have
        # accepting paths are then the ones that get explored (all lengths are still scheduled)
        from . import corpus
        likely = set()
        for x in corpus.valid_numbers(self.modname, 60):
            likely.add(len(x))
            try:
                likely.add(len(self.mod.compact(x)))
            except Exception:      # noqa: B902
                pass
        first = sorted(n_ for n_ in likely if 0 <= n_ <= self.nmax)
        order = first + [n_ for n_ in range(0, self.nmax + 1) if n_ not in likely] + ['long']
        for opts in option_valuations(self.mod):
            for n in order:
                if time.time() - self.t0 > self.time_limit:
                    self.undecided.append(dict(opts=repr(opts) if opts else '', n=n, why='module time limit'))
                    self.units.append(dict(opts=repr(opts) if opts else '', n=n, status='module time limit', paths=0, accept=0, secs=0.0))
                    continue
                self.unit(f, opts, n)
        if self.undecided:
            try:
                self.shape_units(f)
            except Exception as e:      # noqa: B902
                self.undecided.append(dict(opts='', n='shape', why='shape-directed pass crashed: %s' % str(e)[:80]))
            try:
                self.bounded_standin()
            except Exception as e:      # noqa: B902
                self.undecided.append(dict(opts='', n='bounded', why='bounded stand-in crashed: %s' % e))
        return self.result()

    # ------------------------------------------------------------------ shape-directed pass for undecided modules
    def shape_units(self, f):
        """modules whose compact() forks on every separator position never get past it within the budget.  This pass
        takes the presentations found in the corpus, keeps their separators and length, and makes every ASCII letter and
        digit an unknown over [0-9A-Za-z]: validate() is then executed symbolically on all numbers of that shape.  It can
        only refute (every finding is replayed); nothing is claimed proved from it."""
        from . import corpus
        alnum = ISet([(48, 57), (65, 90), (97, 122)])
        shapes = []
        for x in corpus.valid_numbers(self.modname, 80):
            if not x or len(x) > 40:
                continue
            sh = ''.join('x' if (c.isascii() and c.isalnum()) else c for c in x)
            if sh not in shapes:
                shapes.append(sh)
        t_end = time.time() + (45 if self.tier == 'quick' else 600)
        done = 0
        for sh in sorted(shapes, key=len)[:4 if self.tier == 'quick' else 12]:
            for opts in option_valuations(self.mod)[:2 if self.tier == 'quick' else 8]:
                left = t_end - time.time()
                if left < 3:
                    break

                def make_args(ctx, sh=sh):
                    fs = FixedStr([ctx.fresh_char(alnum, 'h') if c == 'x' else ord(c) for c in sh])
                    ctx.primary = fs
                    ctx.primary_params = None
                    return [fs]

                def on_path(p, opts=opts):
                    try:
                        if p.kind == 'raise':
                            self.on_raise(p, opts, 'shape')
                        else:
                            self.on_return(p, opts, 'shape')
                    except (Unsupported, z3.Z3Exception):
                        pass
                ex = explore(f, make_args, len(sh), budget=1500 if self.tier == 'quick' else 10000, time_limit=min(left, 15 if self.tier == 'quick' else 120),
                             kwargs=opts, long_bound=self.nmax, on_path=on_path)
                done += 1
                self.stats['checks'] += ex.checks
        self.stats['shape_units'] = done

    # ------------------------------------------------------------------ bounded stand-in for undecided modules
    HOSTILE = ['', ' ', '\n', '\x00', '0', '-', '1' * 50, '1' * 5000, 'A' * 41, '\u0661\u0662\u0663', '\uff11\uff12', '\U0001d7ce' * 9, '\u00b2\u00b3',
               '\u00df', '\u0130', 'ŉ', '\u2028', ' 1', '1 ', '1\n', '\u20031', 'None']

    def bounded_standin(self):
        """run-time contract check of C01/C02/C15 on generated inputs, for modules the symbolic sweep left (partly)
        undecided: corpus numbers, their single-edit neighbours, hostile strings, non-string objects"""
        import random
        from . import corpus
        from .isets import ASCII
        rnd = random.Random(int(os.environ.get('VERIF_SEED', '0') or 0))
        allowed = ASCII.union(ISet.of(NATIONAL.get(self.modname, '')))
        inputs = list(self.HOSTILE)
        alpha = '0123456789ABCDEFGHIJKLMNOPQRSTUVWXYZ -./\n\u0660\uff10é'
        for x in corpus.valid_numbers(self.modname, 10 if self.tier == 'quick' else 40):
            inputs.append(x)
            for _ in range(12 if self.tier == 'quick' else 60):
                if not x:
                    break
                i = rnd.randrange(len(x))
                op = rnd.choice('sdi')
                inputs.append(x[:i] + rnd.choice(alpha) + x[i + 1:] if op == 's' else x[:i] + x[i + 1:] if op == 'd' else x[:i] + rnd.choice(alpha) + x[i:])
            inputs += [x + '\n', ' ' + x, x.lower(), x + '\u0660']
            # the same number written with other decimal digits of equal value (int() and \\d accept them, clean() maps only some)
            dpos = [i for i, c in enumerate(x) if c in '0123456789']
            for base in (0x0660, 0x0966, 0xFF10, 0x1D7CE):
                if dpos:
                    inputs.append(''.join(chr(base + ord(c) - 48) if c in '0123456789' else c for c in x))
                    for i in dpos[:14] if base == 0x0660 else dpos[:2] + dpos[-1:]:
                        inputs.append(x[:i] + chr(base + ord(x[i]) - 48) + x[i + 1:])
        # the rest of the corpus (the number lists of tests/*.doctest) as it stands, and synthesised valid numbers: cheap
        first = set(corpus.valid_numbers(self.modname, 10 if self.tier == 'quick' else 40))
        more = [x for x in corpus.valid_numbers(self.modname, 400 if self.tier == 'quick' else 4000) if x not in first]
        inputs += corpus.registry_gaps(self.modname)
        inputs += more + [x for x in corpus.synth_valid(self.modname, 30 if self.tier == 'quick' else 300, int(os.environ.get('VERIF_SEED', '0') or 0))
                          if x not in more]
        n = 0
        for opts in option_valuations(self.mod):
            for x in inputs + [None, 5, 1.5, b'12', ['1', '2'], object()]:
                n += 1
                res = call_real(self.qual, [x], opts)
                if res[0] == 'raise' and not is_validation_error(res):
                    if 'C01' in self.props:
                        self.finding('C01', 'non-ValidationError', 'bounded: %s' % res[1], input=x if isinstance(x, str) else repr(x), opts=opts, today=None, n='bounded',
                                     approx=False, real=list(res[:3]), reproduced=True)
                    continue
                if res[0] != 'return':
                    continue
                v = res[1]
                if 'C01' in self.props and (not isinstance(v, str) or v == '') and self.modname not in GENERIC:
                    self.finding('C01', 'bad return value', 'bounded: returns %s' % type(v).__name__, input=x if isinstance(x, str) else repr(x), opts=opts, today=None,
                                 n='bounded', approx=False, real=['return', repr(v)[:80]], reproduced=True)
                if not isinstance(v, str):
                    continue
                if 'C15' in self.props and self.modname not in GENERIC and any(not allowed.contains(ord(c)) for c in v):
                    self.finding('C15', 'non-ASCII result', 'bounded: validate returns a non-ASCII character', input=x, opts=opts, today=None, n='bounded',
                                 approx=False, real=['return', repr(v)[:80]], reproduced=True)
                if 'C02' in self.props and isinstance(x, str):
                    r2 = call_real(self.qual, [v], opts)
                    if v != v.strip() or not (r2[0] == 'return' and r2[1] == v):
                        self.finding('C02', 'not a fixed point', 'bounded: validate(validate(x)) is not validate(x)', input=x, opts=opts, today=None, n='bounded',
                                     approx=False, real=['return', repr(v)[:80], list(r2[:2])], reproduced=True)
        self.stats['bounded_inputs'] = n

    def unit(self, f, opts, n):
        t0 = time.time()
        counts = dict(paths=0, acc=0)

        def on_path(p):
            counts['paths'] += 1
            try:
                if p.kind == 'raise':
                    self.on_raise(p, opts, n)
                else:
                    counts['acc'] += 1
                    self.on_return(p, opts, n)
            except Unsupported as u:
                self.undecided.append(dict(opts=repr(opts), n=n, why='post-check: ' + str(u)))
            except z3.Z3Exception as e:
                self.undecided.append(dict(opts=repr(opts), n=n, why='post-check z3: ' + str(e)[:60]))
        ex = explore(f, lambda ctx: [raw_input()], n, budget=4000 if self.tier == 'quick' else 20000,
                     time_limit=min(45 if self.tier == 'quick' else 600, max(5, self.time_limit - (time.time() - self.t0))),
                     kwargs=opts, long_bound=self.nmax, on_path=on_path, on_restart=lambda: counts.update(paths=0, acc=0))
        if ex.status in ('budget', 'timeout') and self.time_limit - (time.time() - self.t0) > 8:
            # the unit is undecided whatever happens next; a short second pass takes the other side of every fork first, so
            # that what the first pass never reached (it spent its budget on one side of an early fork) still gets examined
            ex2 = explore(f, lambda ctx: [raw_input()], n, budget=400 if self.tier == 'quick' else 3000,
                          time_limit=min(12 if self.tier == 'quick' else 120, max(3, self.time_limit - (time.time() - self.t0))),
                          kwargs=opts, long_bound=self.nmax, on_path=on_path, on_restart=lambda: None, prefer=False)
            ex.checks += ex2.checks
            ex.fast += ex2.fast
            ex.unknowns += ex2.unknowns
        self.stats['paths'] += counts['paths']
        self.stats['checks'] += ex.checks
        self.stats['fast'] += ex.fast
        self.stats['unknowns'] += ex.unknowns
        acc = counts['acc']
        self.stats['accept_paths'] += acc
        u = dict(opts=repr(opts) if opts else '', n=n, status=ex.status, paths=counts['paths'], accept=acc,
                 secs=round(time.time() - t0, 3))
        self.units.append(u)
        if ex.status != 'ok':
            self.undecided.append(dict(opts=repr(opts), n=n, why=ex.status))

    def replay_search(self, ctx, opts, pred, value=None, extra=None):
        """models of the path condition (plus extra), replayed on the real validate(); tries up to three models:
        as found, then with characters that only arise from multi-character case expansions excluded, then preferring
        ASCII.  -> (input, today, real result, reproduced)"""
        from .isets import case_map
        first = None
        prim = ctx.primary
        pchars = []
        if isinstance(prim, FixedStr):
            pchars = [c for c in prim.chars if not isinstance(c, int)]
        elif isinstance(prim, LongStr):
            pchars = [c for c in prim.pre + prim.suf if not isinstance(c, int)]
        weird = ISet.of([x for img in list(case_map('upper')[1].values()) + list(case_map('lower')[1].values()) for x in img])
        weird = weird.minus(ASCII)
        for attempt in range(3):
            c2 = ctx.clone() if (attempt or extra is not None) else ctx
            try:
                if extra is not None:
                    c2.assume(extra)
                if attempt == 1:
                    for c in pchars:
                        if not c2.dom_of(c).minus(weird).empty():
                            c2.assume(in_set(c, weird.compl()))
                if attempt == 2:
                    for c in pchars:
                        if not c2.dom_of(c).inter(ASCII).empty() and c.get_id() not in c2.relvars:
                            c2.assume(in_set(c, ASCII))
                m = c2.model()
            except Exception:
                m = None
            if m is None:
                if attempt == 0:
                    return None
                continue
            w = witness_string(c2, prim, m)
            today = today_of(c2, m)
            res = call_real(self.qual, [w], opts, today)
            ok = pred(res, w, today)
            if first is None:
                first = (w, today, res, ok)
            if ok:
                return (w, today, res, True)
            if attempt == 0 and not any(weird.contains(ord(ch)) for ch in w) and False:
                break
        return first

    # ------------------------------------------------------------------ C01: raises
    def on_raise(self, p, opts, n):
        E = sys.modules['stdnum.exceptions']
        site = '%s | %s' % (p.site[0] if p.site else '?', (p.site[1] if p.site else p.why) or p.why)
        s = self.sites.setdefault(site, dict(exc=p.exc.__name__, paths=0, escapes=0))
        s['paths'] += 1
        if issubclass(p.exc, E.ValidationError):
            return
        s['escapes'] += 1
        if 'C01' not in self.props:
            return
        ctx = p.ctx
        key = '%s@%s' % (p.exc.__name__, site)
        done = [f for f in self.findings if f['property'] == 'C01' and f['key'] == key and f.get('reproduced')]
        if done:
            done[0]['count'] += 1
            return
        r = self.replay_search(ctx, opts, lambda res, w, td: res[0] == 'raise' and not is_validation_error(res))
        if r is None:
            return          # infeasible (or unknown): no refutation
        w, today, res, reproduced = r
        self.finding('C01', 'non-ValidationError', key, input=w, opts=opts, today=today, n=n, approx=ctx.approx or bool(getattr(ctx, 'soft', None)),
                     approx_why=list(ctx.approx_why), expected='raises %s' % p.exc.__name__,
                     real=list(res[:3]) if res[0] == 'raise' else ['return', repr(res[1])[:80]], reproduced=reproduced)

    # ------------------------------------------------------------------ accepting paths
    def on_return(self, p, opts, n):
        ctx = p.ctx
        v = p.value
        v = p.interp.norm_str(v) if isinstance(v, FixedStr) else v
        # feasibility of the accepting path (cover): needed before anything is claimed about it
        m = ctx.model()
        if m is None:
            return
        w = witness_string(ctx, None, m)
        today = today_of(ctx, m)
        if len(self.samples) < 3:
            self.samples.append(dict(kind='accepting path', n=n, opts=repr(opts), input=w, returns=describe_value(v)))
        # C01: the result is a non-empty string
        if 'C01' in self.props:
            bad = None
            if not isinstance(v, (str, FixedStr, LongStr)):
                bad = 'returns %s, not a string' % describe_value(v)
            elif not isinstance(v, LongStr) and len(v) == 0:
                bad = "returns '' (is_valid() would be False)"
            if bad:
                res = call_real(self.qual, [w], opts, today)
                rep = res[0] == 'return' and (not isinstance(res[1], str) or res[1] == '')
                self.finding('C01', 'bad return value', bad, input=w, opts=opts, today=today, n=n, approx=ctx.approx or bool(getattr(ctx, 'soft', None)),
                             real=[res[0], repr(res[1])[:80]], reproduced=rep)
                return
        if not isinstance(v, (str, FixedStr, LongStr)):
            return
        if 'C15' in self.props and self.modname not in GENERIC:
            self.check_ascii(p, v, opts, n, today)
        if 'C02' in self.props:
            self.check_fixpoint(p, v, opts, n, m, w, today)

    def check_ascii(self, p, v, opts, n, today):
        ctx = p.ctx
        self.stats['c15_checked'] += 1
        allowed = ASCII.union(ISet.of(NATIONAL.get(self.modname, '')))
        extra = None
        if isinstance(v, FixedStr):
            if not any(isinstance(c, int) and not allowed.contains(c) for c in v.chars):
                chars = [c for c in v.chars if not isinstance(c, int)]
                if all(ctx.dom_of(c).subset(allowed) for c in chars):
                    return
                extra = Or(*[Not(in_set(c, allowed)) for c in chars])
                if ctx.check(extra) == z3.unsat:
                    return
        elif isinstance(v, LongStr):
            if v.cls.subset(allowed) and not v.lastnl:
                return
        elif isinstance(v, str):
            if all(allowed.contains(ord(c)) for c in v):
                return

        def pred(res, w, td):
            return res[0] == 'return' and isinstance(res[1], str) and any(not allowed.contains(ord(x)) for x in res[1])
        r = self.replay_search(ctx, opts, pred, extra=extra)
        if r is None:
            self.undecided.append(dict(opts=repr(opts), n=n, why='C15 solver unknown'))
            return
        w, td, res, rep = r
        self.finding('C15', 'non-ASCII result', 'validate returns a non-ASCII character', input=w, opts=opts, today=td,
                     n=n, approx=ctx.approx or isinstance(v, LongStr) or bool(getattr(ctx, 'soft', None)), real=[res[0], repr(res[1])[:80]], reproduced=rep)

    def check_fixpoint(self, p, v, opts, n, m, w, today):
        """C02: validate(v) == v under the path condition, and v has no white space at either end"""
        ctx = p.ctx
        self.stats['c02_checked'] += 1
        sp = cls('space')
        if isinstance(v, LongStr):
            self.undecided.append(dict(opts=repr(opts), n=n, why='C02: accepted string of unbounded length'))
            return
        vs = tostr(v)
        for c in (vs.chars[:1] + vs.chars[-1:]):
            cond = in_set(c, sp)
            if cond is False or (cond is not True and ctx.check(cond) == z3.unsat):
                continue
            r = self.replay_search(ctx, opts, lambda res, w_, td: res[0] == 'return' and isinstance(res[1], str) and res[1] != res[1].strip(),
                                   extra=None if cond is True else cond)
            if r is not None:
                w2, td, res, rep = r
                self.finding('C02', 'white space in result', 'validate returns a value with outer white space',
                             input=w2, opts=opts, today=td, n=n, approx=ctx.approx or bool(getattr(ctx, 'soft', None)), real=[res[0], repr(res[1])[:80]], reproduced=rep)
                if rep:
                    return
        # nested run: validate(v) under the path condition of this accepting path
        f = func(self.mod.validate)
        ex = explore(f, lambda c2: [v], n, budget=300, time_limit=30, base=ctx, kwargs=opts, long_bound=self.nmax)
        self.stats['c02_nested'] += len(ex.paths)
        if ex.status != 'ok':
            self.undecided.append(dict(opts=repr(opts), n=n, why='C02 nested: ' + ex.status))
            return

        def pred(res, w_, td):
            if res[0] != 'return' or not isinstance(res[1], str):
                return False
            res2 = call_real(self.qual, [res[1]], opts, td)
            return not (res2[0] == 'return' and res2[1] == res[1])
        for q in ex.paths:
            extra = None
            if q.kind == 'return':
                qv = q.value
                what = 'validate(validate(x)) differs from validate(x)'
                if isinstance(qv, (str, FixedStr)) and len(tostr(qv)) == len(vs):
                    c = str_eq(qv, vs)
                    if c is True or (c is not False and q.ctx.entails(c)):
                        continue
                    if c is not False:
                        extra = Not(c)
            else:
                what = 'validate(validate(x)) raises %s' % q.exc.__name__
            q.ctx.primary = ctx.primary
            r = self.replay_search(q.ctx, opts, pred, extra=extra)
            if r is None:
                continue
            w2, td, res, rep = r
            self.finding('C02', 'not a fixed point', what, input=w2, opts=opts, today=td, n=n,
                         approx=ctx.approx or q.ctx.approx or bool(getattr(q.ctx, 'soft', None)), real=[res[0], repr(res[1])[:80]], reproduced=rep)

    # ------------------------------------------------------------------
    def result(self):
        return dict(module=self.modname, tier=self.tier, nmax=self.nmax, props=list(self.props), units=self.units,
                    sites=self.sites, findings=self.findings, undecided=self.undecided, stats=self.stats,
                    samples=self.samples, secs=round(time.time() - self.t0, 2))


def sweep_module(modname, tier='quick', nmax=LONG_BOUND, props=('C01', 'C02', 'C15'), time_limit=None):
    try:
        return ModuleSweep(modname, tier, nmax, props, time_limit).run()
    except Exception as e:      # noqa: B902 - a crash of the checker is reported as such, never as a verdict
        return dict(module=modname, crash='%s: %s' % (type(e).__name__, str(e)[:200]), tb=traceback.format_exc()[-1500:])


if __name__ == '__main__':
    isets.warm()
    absstr.table_lemmas()
    for m in sys.argv[1:]:
        r = sweep_module(m)
        r.pop('units', None)
        print(json.dumps(r, ensure_ascii=True, default=repr, indent=1))
