"""Front end: the working tree of /repo, its modules and the ASTs of its functions.

Every run imports the real modules from REPO (module-level data is what CPython computes at import) and parses the
function bodies from the same files.  Dropped from the verified text: comments and docstrings.  Nothing else.
"""
import ast
import hashlib
import importlib
import importlib.util
import inspect
import os
import sys
import types
import warnings

REPO = os.environ.get('VERIF_REPO', '/repo')
WSGI_NAME = 'stdnum_wsgi'
WSGI_PATH = os.path.join(REPO, 'online_check', 'stdnum.wsgi')

warnings.simplefilter('ignore')
if REPO not in sys.path:
    sys.path.insert(0, REPO)

_AST = {}
_FUNCS = {}


def module_ast(mod):
    fn = getattr(mod, '__file__', None)
    if fn is None:
        raise KeyError(mod)
    if fn not in _AST:
        with open(fn, encoding='utf-8') as f:
            _AST[fn] = ast.parse(f.read(), fn)
    return _AST[fn]


def _find_def(tree, qualname, lineno=None):
    parts = qualname.replace('.<locals>', '').split('.')

    def search(body, parts):
        for n in body:
            if isinstance(n, (ast.FunctionDef, ast.ClassDef)) and n.name == parts[0]:
                if len(parts) == 1:
                    if isinstance(n, ast.FunctionDef):
                        return n
                    continue
                r = search(n.body, parts[1:])
                if r is not None:
                    return r
            elif isinstance(n, (ast.If, ast.Try)):
                for blk in [n.body, n.orelse] + ([h.body for h in n.handlers] + [n.finalbody] if isinstance(n, ast.Try) else []):
                    r = search(blk, parts)
                    if r is not None:
                        return r
        return None
    return search(tree.body, parts)


def func_of(pyfunc, Func):
    """Func (AST + defining module) for a real function object of the repository"""
    key = (pyfunc.__module__, pyfunc.__qualname__)
    if key not in _FUNCS:
        mod = sys.modules[pyfunc.__module__]
        tree = module_ast(mod)
        node = _find_def(tree, pyfunc.__qualname__)
        if node is None:
            raise KeyError('no AST for %s.%s' % key)
        _FUNCS[key] = Func(node, mod, pyfunc.__qualname__, pyfunc)
    return _FUNCS[key]


def load_wsgi():
    if WSGI_NAME in sys.modules:
        return sys.modules[WSGI_NAME]
    import importlib.machinery
    loader = importlib.machinery.SourceFileLoader(WSGI_NAME, WSGI_PATH)
    spec = importlib.util.spec_from_loader(WSGI_NAME, loader)
    mod = importlib.util.module_from_spec(spec)
    sys.modules[WSGI_NAME] = mod
    loader.exec_module(mod)
    return mod


_MODS = None


def number_modules():
    """the discoverable number modules, by the library's own discovery function"""
    global _MODS
    if _MODS is None:
        from stdnum.util import get_number_modules
        with warnings.catch_warnings():
            warnings.simplefilter('ignore')
            _MODS = sorted(get_number_modules(), key=lambda m: m.__name__)
    return _MODS


def module_names():
    return [m.__name__ for m in number_modules()]


def tree_hash(extra=()):
    """content hash of everything a verdict depends on: the repository sources and data, the checker"""
    h = hashlib.sha256()
    here = os.path.dirname(os.path.abspath(__file__))
    roots = [os.path.join(REPO, 'stdnum'), os.path.join(REPO, 'online_check'), here]
    for root in roots:
        for dp, dn, fn in sorted(os.walk(root)):
            dn.sort()
            if '__pycache__' in dp or (root == here and dp != here):
                continue        # property drivers under pyvc/props do not influence the shared sweep
            if root == here:
                fn = [f for f in fn if f in ENGINE_FILES]
            for f in sorted(fn):
                if f.endswith(('.py', '.dat', '.wsgi', '.html', '.lean')):
                    p = os.path.join(dp, f)
                    h.update(p.encode())
                    with open(p, 'rb') as fh:
                        h.update(fh.read())
    for e in extra:
        h.update(repr(e).encode())
    h.update(sys.version.encode())
    return h.hexdigest()


# the files a sweep result depends on (reporting, pooling and the CLI do not influence it)
ENGINE_FILES = {'isets.py', 'sym.py', 'ctx.py', 'regex.py', 'strops.py', 'absstr.py', 'methods.py', 'builtins_.py', 'interp.py', 'front.py',
                'explore.py', 'sweep.py', 'replay.py', 'contracts_core.py', 'corpus.py'}


def source_of(node):
    return ast.unparse(node)


def strip_docstrings(tree):
    for n in ast.walk(tree):
        if isinstance(n, (ast.FunctionDef, ast.Module, ast.ClassDef)) and n.body and isinstance(n.body[0], ast.Expr) \
                and isinstance(n.body[0].value, ast.Constant) and isinstance(n.body[0].value.value, str):
            n.body = n.body[1:] or [ast.Pass()]
    return tree
