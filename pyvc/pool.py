"""Task pool: one forked process per task, a hard wall-clock guard per task, and survival of killed workers
(a worker that dies - e.g. from the out-of-memory killer - yields a crash record for its task, never a hang)."""
import multiprocessing as mp
import os
import resource
import signal
import time
import traceback


class TaskTimeout(BaseException):
    pass


def _alarm(signum, frame):
    raise TaskTimeout()


def _child(fn, item, limit, conn, mem_gb):
    try:
        if mem_gb:
            lim = int(mem_gb * (1 << 30))
            try:
                resource.setrlimit(resource.RLIMIT_AS, (lim, lim))
            except (ValueError, OSError):
                pass
        signal.signal(signal.SIGALRM, _alarm)
        signal.alarm(int(limit))
        try:
            res = fn(item)
        except TaskTimeout:
            res = dict(crash='hard time limit of %ds' % limit, timeout=True)
        except MemoryError:
            res = dict(crash='memory limit of %s GB' % mem_gb, timeout=True)
        except Exception as e:     # noqa: B902
            res = dict(crash='%s: %s' % (type(e).__name__, str(e)[:300]), tb=traceback.format_exc()[-2000:])
        finally:
            signal.alarm(0)
        # the alarm may fire inside a solver call-back, where ctypes wraps it into an ordinary exception that the task's own
        # handler then reports as a crash: it is the time limit all the same (undecided, never a checker error)
        if isinstance(res, dict) and 'crash' in res and 'TaskTimeout' in (str(res.get('crash')) + str(res.get('tb', ''))):
            res = dict(res, timeout=True)
        conn.send(res)
    except BaseException as e:     # noqa: B902
        try:
            conn.send(dict(crash='worker failed: %s' % type(e).__name__, timeout=True))
        except Exception:     # noqa: B902
            pass
    finally:
        conn.close()
        os._exit(0)


def pool_map(fn, items, procs=None, limit=900, progress=None, mem_gb=6, deadline=None):
    """fn must be a module-level function; results as a list of (item, result, secs) in completion order.
    deadline (absolute time): tasks not started by then are not started (crash record with timeout=True: undecided)"""
    procs = procs or int(os.environ.get('VERIF_PROCS') or min(16, os.cpu_count() or 4))
    ctx = mp.get_context('fork')
    todo = list(items)[::-1]
    running = {}          # pid -> (process, conn, item, t0)
    out = []

    def finish(pid, res):
        p, conn, item, t0 = running.pop(pid)
        r = (item, res, time.time() - t0)
        out.append(r)
        if progress:
            progress(r)
    while todo or running:
        if deadline is not None and todo and time.time() > deadline:
            for item in todo[::-1]:
                r = (item, dict(crash='not started: time limit of the whole check', timeout=True), 0.0)
                out.append(r)
                if progress:
                    progress(r)
            todo = []
        while todo and len(running) < procs:
            item = todo.pop()
            parent, child = ctx.Pipe(duplex=False)
            p = ctx.Process(target=_child, args=(fn, item, limit, child, mem_gb))
            p.start()
            child.close()
            running[p.pid] = (p, parent, item, time.time())
        time.sleep(0.02)
        for pid in list(running):
            p, conn, item, t0 = running[pid]
            res = None
            try:
                if conn.poll():
                    res = conn.recv()
            except (EOFError, OSError):
                res = None
            if res is not None:
                p.join(5)
                finish(pid, res)
            elif not p.is_alive():
                p.join(1)
                finish(pid, dict(crash='worker died (exit code %s: killed, probably out of memory)' % p.exitcode, timeout=True))
            elif time.time() - t0 > limit + 30:
                p.kill()
                p.join(5)
                finish(pid, dict(crash='hard time limit of %ds (killed)' % limit, timeout=True))
    return out
