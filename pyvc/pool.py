"""Process pool: one task per process slot, hard wall-clock guard per task."""
import multiprocessing as mp
import os
import signal
import time
import traceback


class TaskTimeout(BaseException):
    pass


def _alarm(signum, frame):
    raise TaskTimeout()


def _run(payload):
    fn, item, limit = payload
    signal.signal(signal.SIGALRM, _alarm)
    signal.alarm(int(limit))
    t0 = time.time()
    try:
        return (item, fn(item), time.time() - t0)
    except TaskTimeout:
        return (item, dict(crash='hard time limit of %ds' % limit, timeout=True), time.time() - t0)
    except Exception as e:     # noqa: B902
        return (item, dict(crash='%s: %s' % (type(e).__name__, str(e)[:300]), tb=traceback.format_exc()[-2000:]), time.time() - t0)
    finally:
        signal.alarm(0)


def pool_map(fn, items, procs=None, limit=900, progress=None):
    """fn must be a module-level function; results as a list of (item, result, secs) in completion order"""
    procs = procs or int(os.environ.get('VERIF_PROCS') or min(16, os.cpu_count() or 4))
    ctx = mp.get_context('fork')
    out = []
    with ctx.Pool(procs, maxtasksperchild=4) as pool:
        for r in pool.imap_unordered(_run, [(fn, it, limit) for it in items]):
            out.append(r)
            if progress:
                progress(r)
    return out
