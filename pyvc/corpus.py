"""Corpus of valid numbers per module, harvested from the doctests of the working tree (module docstrings and
tests/*.doctest).  Used only for covers, replays and the bounded stand-ins - never for a proof."""
import glob
import importlib
import os
import re
import warnings

from . import front

_CACHE = {}
_STR = re.compile(r"""'((?:[^'\\\n]|\\.){1,60})'|"((?:[^"\\\n]|\\.){1,60})\"""")


def _literals(text):
    out = []
    for m in _STR.finditer(text):
        s = m.group(1) if m.group(1) is not None else m.group(2)
        try:
            s = bytes(s, 'utf-8').decode('unicode_escape') if '\\' in s else s
        except Exception:     # noqa: B902
            continue
        out.append(s)
    return out


def _doctest_numbers(path):
    """multi-line number lists in tests/*.doctest: lines between ''' ... ''' """
    text = open(path, encoding='utf-8').read()
    out = []
    for block in re.findall(r"'''(.*?)'''", text, re.S):
        for line in block.splitlines():
            line = line.strip()
            if line.startswith('...'):
                line = line[3:].strip()
            if line and len(line) < 80:
                out.append(line)
    return out + _literals(text)


def valid_numbers(modname, limit=40):
    if modname in _CACHE:
        return _spread(_CACHE[modname], limit)
    mod = importlib.import_module(modname)
    cands = []
    if mod.__doc__:
        cands += _literals(mod.__doc__)
    for fn in ('validate', 'format', 'compact'):
        f = getattr(mod, fn, None)
        if f is not None and f.__doc__:
            cands += _literals(f.__doc__)
    short = modname[len('stdnum.'):]
    for p in sorted(set(glob.glob(os.path.join(front.REPO, 'tests', 'test_%s.doctest' % short)) +
                        glob.glob(os.path.join(front.REPO, 'tests', 'test_%s.doctest' % short.replace('.', '_'))))):
        cands += _doctest_numbers(p)
    seen = set()
    out = []
    with warnings.catch_warnings():
        warnings.simplefilter('ignore')
        for c in cands:
            if c in seen:
                continue
            seen.add(c)
            try:
                if mod.is_valid(c) is True:
                    out.append(c)
            except Exception:     # noqa: B902
                continue
    out.sort(key=lambda s: (len(s) > 40, s))
    _CACHE[modname] = out
    return _spread(out, limit)


def _spread(out, limit):
    """at most `limit` numbers, evenly spread over the sorted corpus (the first ones alone tend to look alike)"""
    if len(out) <= limit:
        return list(out)
    step = len(out) / float(limit)
    return [out[int(i * step)] for i in range(limit)]


_SYNTH = {}


def synth_valid(modname, k=40, seed=0):
    """further valid numbers of a module: payload digits/letters of corpus numbers are changed at random and every check
    character that validate() compares with a generator is recomputed with that generator (in dependency order).
    Only numbers the real is_valid() accepts are returned.  Bounded stand-ins only."""
    key = (modname, k, seed)
    if key in _SYNTH:
        return _SYNTH[key]
    import random
    from .props import c05
    mod = importlib.import_module(modname)
    rnd = random.Random(seed)
    out = []
    try:
        vfn, rels = c05.relations(mod)
        if not rels:
            rels = c05.convention_relations(mod)
    except Exception:      # noqa: B902
        rels = []
    base = []
    for x in valid_numbers(modname, 10):
        try:
            base.append(mod.validate(x))
        except Exception:      # noqa: B902
            pass
    seen = set(base)
    tries = 0
    while base and len(out) < k and tries < k * 30:
        tries += 1
        v = rnd.choice(base)
        chars = list(v)
        app = []
        for g, arg_e, pos_e, op, var in rels:
            pos = c05.indices(pos_e, var.split(':')[0], len(v))
            arg = c05.indices(arg_e, var.split(':')[0], len(v))
            if not pos or not arg or op not in ('NotEq', 'Eq'):
                continue
            try:
                ck = g(''.join(v[a] for a in arg))
            except Exception:      # noqa: B902
                continue
            if isinstance(ck, str) and len(ck) == len(pos) and all(v[p_] == c for p_, c in zip(pos, ck)):
                app.append((g, arg, pos))
        allpos = {p_ for g, arg, pos in app for p_ in pos}
        ordered, rest = [], list(app)
        while rest:
            free = [r_ for r_ in rest if not any(set(o[2]) & set(r_[1]) for o in rest if o is not r_)]
            if not free:
                break
            ordered += free
            rest = [r_ for r_ in rest if r_ not in free]
        for _ in range(rnd.randint(1, 4)):
            i = rnd.randrange(len(chars))
            if i in allpos:
                continue
            if chars[i].isdigit():
                chars[i] = rnd.choice('0123456789')
            elif chars[i].isalpha() and chars[i].isascii():
                chars[i] = rnd.choice('ABCDEFGHIJKLMNOPQRSTUVWXYZ')
        ok = True
        for g, arg, pos in ordered:
            try:
                ck = g(''.join(chars[a] for a in arg))
            except Exception:      # noqa: B902
                ok = False
                break
            if not isinstance(ck, str) or len(ck) != len(pos):
                ok = False
                break
            for p_, c in zip(pos, ck):
                chars[p_] = c
        y = ''.join(chars)
        if not ok or y in seen:
            continue
        try:
            if mod.is_valid(y) and mod.validate(y) == y:
                out.append(y)
                seen.add(y)
        except Exception:      # noqa: B902
            pass
    _SYNTH[key] = out
    return out


def registry_gaps(modname, k=12):
    """inputs that fall into the gaps of a hierarchical registry: a top-level prefix that the registry subdivides, followed by a
    sub-block that is not assigned (MAC addresses: OUIs with 28- and 36-bit sub-assignments).  Bounded stand-ins only."""
    if modname != 'stdnum.mac':
        return []
    import stdnum.numdb as numdb
    out = []
    try:
        db = numdb.get('oui')
    except Exception:     # noqa: B902
        return out
    for length, low, high, props, children in db.prefixes:
        if not children or low != high:
            continue
        used = set()
        clen = None
        for l2, lo2, hi2, p2, ch2 in children:
            clen = l2
            try:
                used.update(range(int(lo2, 16), int(hi2, 16) + 1))
            except ValueError:
                continue
        if not clen:
            continue
        free = [v for v in (16 ** clen - 1, 0, 16 ** clen // 2) if v not in used]
        for v in free[:1]:
            digits = (low + ('%0' + str(clen) + 'X') % v).ljust(12, '0')[:12]
            out.append(':'.join(digits[i:i + 2] for i in range(0, 12, 2)))
        if len(out) >= k:
            break
    return out
