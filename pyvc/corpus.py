"""Corpus of valid numbers per module, harvested from the doctests of the working tree (module docstrings and
tests/*.doctest).  Used only for covers, replays and the bounded stand-ins - never for a proof."""
import glob
import importlib
import os
import re
import warnings

from . import front

_CACHE = {}
_STR = re.compile(r"""'((?:[^'\\\n]|\\.){1,60})'|"((?:[^"\\\n]|\\.){1,60})\"""")


def _literals(text):
    out = []
    for m in _STR.finditer(text):
        s = m.group(1) if m.group(1) is not None else m.group(2)
        try:
            s = bytes(s, 'utf-8').decode('unicode_escape') if '\\' in s else s
        except Exception:     # noqa: B902
            continue
        out.append(s)
    return out


def _doctest_numbers(path):
    """multi-line number lists in tests/*.doctest: lines between ''' ... ''' """
    text = open(path, encoding='utf-8').read()
    out = []
    for block in re.findall(r"'''(.*?)'''", text, re.S):
        for line in block.splitlines():
            line = line.strip()
            if line.startswith('...'):
                line = line[3:].strip()
            if line and len(line) < 80:
                out.append(line)
    return out + _literals(text)


def valid_numbers(modname, limit=40):
    if modname in _CACHE:
        return _CACHE[modname][:limit]
    mod = importlib.import_module(modname)
    cands = []
    if mod.__doc__:
        cands += _literals(mod.__doc__)
    for fn in ('validate', 'format', 'compact'):
        f = getattr(mod, fn, None)
        if f is not None and f.__doc__:
            cands += _literals(f.__doc__)
    short = modname[len('stdnum.'):]
    for p in glob.glob(os.path.join(front.REPO, 'tests', 'test_%s.doctest' % short)):
        cands += _doctest_numbers(p)
    seen = set()
    out = []
    with warnings.catch_warnings():
        warnings.simplefilter('ignore')
        for c in cands:
            if c in seen:
                continue
            seen.add(c)
            try:
                if mod.is_valid(c) is True:
                    out.append(c)
            except Exception:     # noqa: B902
                continue
    out.sort(key=lambda s: (len(s) > 40, s))
    _CACHE[modname] = out
    return out[:limit]
