"""The unknown input and its normalisation chain: contract of stdnum.util.clean, lazy materialisation.

The raw argument of validate() is an unknown value.  clean(raw, D) has the contract (verified against the body of
clean/_clean_chars by the C14 check): the result is ''.join(g(x) for x in raw if g(x) not in D) with g the look-alike
table.  The set of all results is exactly the strings over image(g) minus D.  strip()/upper()/lower() directly on such
a result keep it abstract (facts only); everything else materialises it at the length under exploration.
A second normalisation of the same raw input is computed from the first (primary) one when it absorbs it.
"""
import sys
import z3

from .isets import ISet, FULL, EMPTY, cls, case_map, case_image
from .sym import (U, And, Or, Not, Eq, If, in_set, is_sym, is_charvar, FixedStr, LongStr, AbstractStr, Opaque, tostr,
                  conc, simp, toz3)
from .ctx import Raise, Unsupported, Infeasible, Restart

K_ENDS = 14          # characters materialised at each end of a long string

_G = {}


def gtable():
    """look-alike table of the working tree: (map cp->cp for keys with g(k) != k, image set, keys set, by target)"""
    if not _G:
        import importlib
        cm = importlib.import_module('stdnum.util')._char_map
        mp = {}
        multi = False
        for k, v in cm.items():
            if len(k) != 1 or len(v) != 1:
                multi = True
                continue
            if k != v:
                mp[ord(k)] = ord(v)
        keys = ISet.of(mp.keys())
        targets = ISet.of(mp.values())
        image = keys.compl().union(targets)
        fix = ISet.norm([(t, t) for t in set(mp.values()) if t not in mp]).union(keys.compl())
        bytarget = {}
        for k, v in mp.items():
            bytarget.setdefault(v, []).append(k)
        _G.update(map=mp, keys=keys, image=image, fix=fix, idempotent=image.subset(fix), multi=multi,
                  bytarget={t: ISet.of(ks) for t, ks in bytarget.items()})
    return _G


_LEMMAS = {}
_FACTS = {}


def table_lemmas():
    """facts about Unicode case mapping / white space / the look-alike table that the abstract chain relies on;
    evaluated exhaustively on the running interpreter's tables"""
    if _LEMMAS:
        return _LEMMAS
    sp = cls('space')
    ok_space = True
    ok_idem = True
    for kind in ('upper', 'lower'):
        f = str.upper if kind == 'upper' else str.lower
        runs, multi = case_map(kind)
        cps = list(multi)
        for lo, hi, d in runs:
            cps.extend(range(lo, hi + 1))
        for cp in cps:
            r = f(chr(cp))
            if any(x.isspace() for x in r) or chr(cp).isspace():
                ok_space = False
            if f(r) != r:
                ok_idem = False
    _LEMMAS.update(case_keeps_space=ok_space and all(chr(c).upper() == chr(c) and chr(c).lower() == chr(c)
                                                     for c in sp.members()),
                   case_idempotent=ok_idem, g_idempotent=gtable()['idempotent'], g_single=not gtable()['multi'])
    return _LEMMAS


class Chain:
    """normaliser applied to the raw input: strip?(case?(delete_D(g?(raw))))"""
    __slots__ = ('mapped', 'D', 'case', 'lws', 'rws')

    def __init__(self, mapped=False, D=EMPTY, case=None, lws=False, rws=False):
        self.mapped, self.D, self.case, self.lws, self.rws = mapped, D, case, lws, rws

    def key(self):
        return (self.mapped, self.D.iv, self.case, self.lws, self.rws)

    def absorbs(self, p):
        """self(raw) == self(p(raw)) for every raw"""
        if p.mapped and not self.mapped:
            return False
        if not p.D.subset(self.D):
            return False
        if p.case is not None and p.case != self.case:
            return False
        if (p.lws and not self.lws) or (p.rws and not self.rws):
            return False
        if p.case is not None and not self.D.minus(p.D).empty():
            # delete after case mapping: needs delete/case to commute on the extra characters
            extra = self.D.minus(p.D)
            if not extra.subset(cls('upstable').inter(cls('lowstable'))) or \
                    not case_image(p.case, extra.compl()).disjoint(extra):
                return False
        return True

    def meet(self, o):
        return Chain(self.mapped and o.mapped, self.D.inter(o.D), self.case if self.case == o.case else None,
                     self.lws and o.lws, self.rws and o.rws)

    def facts(self):
        k = self.key()
        if k not in _FACTS:
            _FACTS[k] = self._facts()
        return _FACTS[k]

    def _facts(self):
        g = gtable()
        c = (g['image'] if self.mapped else FULL).minus(self.D)
        if self.case:
            c = case_image(self.case, c)
        sp = cls('space')
        return c, (sp if self.lws else EMPTY), (sp if self.rws else EMPTY)


def mk_abstract(chain):
    c, fx, lx = chain.facts()
    a = AbstractStr(c, fx, lx)
    a.chain = chain
    return a


def raw_input():
    """the unknown str argument"""
    return mk_abstract(Chain())


class AbsOps:
    # ------------------------------------------------------------------ materialisation
    def materialise(self, a):
        ctx = self.ctx
        if a.mat is not None:
            return a.mat
        if ctx.primary is not None:
            # a second normalisation of the same raw input: compute it from the primary when it absorbs it
            p = ctx.primary_params
            if a.chain.absorbs(p):
                a.mat = self.apply_chain(ctx.primary, p, a.chain)
                return a.mat
            raise Restart(a.chain.meet(p))
        if ctx.force_primary is not None and a.chain.key() != ctx.force_primary.key():
            if not a.chain.absorbs(ctx.force_primary):
                raise Restart(a.chain.meet(ctx.force_primary))
            v = mk_abstract(ctx.force_primary)
            self._materialise_primary(v)
            return self.materialise(a)
        return self._materialise_primary(a)

    def _materialise_primary(self, a):
        ctx = self.ctx
        n = ctx.cur_n
        if n == 'long':
            pre = [ctx.fresh_char(a.cls) for _ in range(K_ENDS)]
            suf = [ctx.fresh_char(a.cls) for _ in range(K_ENDS)]
            if not a.firstx.empty():
                ctx.restrict(U(pre[0], a.firstx.compl()))
            if not a.lastx.empty():
                ctx.restrict(U(suf[-1], a.lastx.compl()))
            L = ctx.fresh_int('L')
            ctx.add(L > ctx.long_bound)
            a.mat = LongStr(pre, suf, L, a.cls)
        else:
            chars = [ctx.fresh_char(a.cls) for _ in range(n)]
            if n and not a.firstx.empty():
                ctx.restrict(U(chars[0], a.firstx.compl()))
            if n and not a.lastx.empty():
                ctx.restrict(U(chars[-1], a.lastx.compl()))
            a.mat = FixedStr(chars)
        ctx.primary = a.mat
        ctx.primary_params = a.chain
        return a.mat

    def apply_chain(self, val, p, q):
        """q(raw) from val == p(raw), q absorbs p"""
        ctx = self.ctx
        if isinstance(val, LongStr):
            if q.key() == p.key():
                return val
            extra = q.D.minus(p.D)
            if extra.disjoint(val.cls) and (q.mapped == p.mapped or val.cls.subset(gtable()['fix'])):
                v = val
                if q.case and q.case != p.case:
                    v = self.long_case(v, q.case)
                if (q.lws and not p.lws) or (q.rws and not p.rws):
                    v = self.long_strip(v, q.lws and not p.lws, q.rws and not p.rws)
                return v
            raise Unsupported('second normalisation of a long input with a different delete set')
        v = val
        if q.mapped and not p.mapped:
            v = self.exec_clean(v, q.D)
        elif not q.D.minus(p.D).empty():
            v = self.exec_delete(v, q.D.minus(p.D))
        if q.case and q.case != p.case:
            v = tostr(self.map_case(q.case, tostr(v)))
        if (q.lws and not p.lws) or (q.rws and not p.rws):
            v = self.exec_strip(tostr(v), None, q.lws and not p.lws, q.rws and not p.rws)
        return tostr(v)

    # ------------------------------------------------------------------ clean() and friends on FixedStr
    def exec_clean(self, s, D):
        """clean(s, D) for a FixedStr, character by character"""
        ctx = self.ctx
        g = gtable()
        s = tostr(s)
        out = []
        for ch in s.chars:
            if isinstance(ch, int):
                c2 = g['map'].get(ch, ch)
                if not D.contains(c2):
                    out.append(c2)
                continue
            d = self._dom(ch)
            if not d.disjoint(g['keys']) and ctx.branch(in_set(ch, g['keys'])):
                d = self._dom(ch)
                tg = [t for t, ks in g['bytarget'].items() if not ks.disjoint(d)]
                kept = [t for t in tg if not D.contains(t)]
                if len(tg) == 1:
                    u = tg[0]
                else:
                    u = ctx.fresh_char(ISet.of(tg), 'g')
                    e = z3.IntVal(tg[-1])
                    for t in tg[:-1]:
                        e = z3.If(toz3(in_set(ch, g['bytarget'][t])), t, e)
                    ctx.add(u == e)
                if isinstance(u, int):
                    if not D.contains(u):
                        out.append(u)
                    continue
                if kept and len(kept) < len(tg):
                    if ctx.branch(in_set(u, D)):
                        continue
                    out.append(u)
                elif kept:
                    out.append(u)
                continue
            d = self._dom(ch)
            if not d.disjoint(D):
                if ctx.branch(in_set(ch, D)):
                    continue
            out.append(ch)
        return FixedStr(out)

    def exec_delete(self, s, D):
        ctx = self.ctx
        out = []
        for ch in tostr(s).chars:
            if isinstance(ch, int):
                if not D.contains(ch):
                    out.append(ch)
                continue
            if not self._dom(ch).disjoint(D) and ctx.branch(in_set(ch, D)):
                continue
            out.append(ch)
        return FixedStr(out)

    def exec_strip(self, s, chars, left=True, right=True):
        ctx = self.ctx
        test_set = cls('space') if chars is None else ISet.of(chars)
        c = s.chars
        lo, hi = 0, len(c)
        if left:
            while lo < hi and ctx.branch(in_set(c[lo], test_set)):
                lo += 1
        if right:
            while hi > lo and ctx.branch(in_set(c[hi - 1], test_set)):
                hi -= 1
        return FixedStr(c[lo:hi])

    def do_clean(self, args, kwargs):
        """contract of stdnum.util.clean(number, deletechars='')"""
        ctx = self.ctx
        number = args[0] if args else kwargs.get('number')
        delete = args[1] if len(args) > 1 else kwargs.get('deletechars', '')
        if isinstance(delete, FixedStr):
            delete = self.need_concrete(delete, 'deletechars')
        if not isinstance(delete, str):
            raise Unsupported('clean() with a non-constant delete set')
        D = ISet.of(delete)
        lem = table_lemmas()
        if not lem['g_single']:
            raise Unsupported('look-alike table with multi-character entries')
        if isinstance(number, Opaque):
            if number.kind == 'noniter':
                raise Raise(self.EXC.InvalidFormat, 'clean(non-iterable)')
            if number.kind == 'badseq':
                raise Raise(self.EXC.InvalidFormat, 'clean(sequence with a non-str item)')
            if number.kind == 'strseq':
                # a sequence of strings is joined: behaves like that string
                number = raw_input() if number.info is None else number.info
            else:
                raise Unsupported('clean(%r)' % number)
        if number is None or isinstance(number, (bool, int, float)):
            raise Raise(self.EXC.InvalidFormat, 'clean(non-iterable)')
        if isinstance(number, bytes):
            if number:
                raise Raise(self.EXC.InvalidFormat, 'clean(bytes)')
            return ''
        if isinstance(number, (list, tuple)):
            if all(isinstance(x, str) for x in number):
                number = ''.join(number)
            elif any(isinstance(x, (int, float, type(None), bytes)) for x in number):
                raise Raise(self.EXC.InvalidFormat, 'clean(sequence with a non-str item)')
            else:
                raise Unsupported('clean(list of symbolic items)')
        if isinstance(number, str):
            g = gtable()['map']
            return ''.join(chr(g.get(ord(x), ord(x))) for x in number if not D.contains(g.get(ord(x), ord(x))))
        if isinstance(number, AbstractStr) and number.mat is None:
            ch = number.chain
            if not ch.mapped and ch.case is None and not ch.lws and not ch.rws and ch.D.empty():
                q = Chain(True, D)
                return mk_abstract(q)
            number = self.materialise(number)
        if isinstance(number, AbstractStr):
            number = number.mat
        if isinstance(number, FixedStr):
            return simp(self.exec_clean(number, D))
        if isinstance(number, LongStr):
            g = gtable()
            if number.cls.disjoint(D) and number.cls.subset(g['fix']):
                return number
            ctx.mark_approx('clean() of a long string with deletable characters')
            raise Unsupported('clean() of a long string that may contain deletable characters')
        raise Unsupported('clean(%r)' % type(number).__name__)

    # ------------------------------------------------------------------ abstract (unmaterialised) methods
    def abstract_method(self, a, name, args):
        """strip()/upper()/lower() on an unmaterialised abstract string; None when it must be materialised"""
        if a.mat is not None or args:
            return None
        lem = table_lemmas()
        ch = a.chain
        if name in ('strip', 'lstrip', 'rstrip'):
            if ch.case and not lem['case_keeps_space']:
                return None
            q = Chain(ch.mapped, ch.D, ch.case, ch.lws or name != 'rstrip', ch.rws or name != 'lstrip')
        elif name in ('upper', 'lower'):
            if not (lem['case_keeps_space'] and lem['case_idempotent']):
                return None
            if ch.case is not None and ch.case != name:
                return None
            if name == 'lower':
                return None     # final-sigma context: executed on the materialised string instead
            q = Chain(ch.mapped, ch.D, name, ch.lws, ch.rws)
        else:
            return None
        return mk_abstract(q)

    # ------------------------------------------------------------------ long strings
    def long_case(self, s, kind):
        img = case_image(kind, s.cls)
        stable = cls('upstable' if kind == 'upper' else 'lowstable')
        if s.cls.subset(stable):
            return s
        self.ctx.mark_approx('case mapping of a long string')
        ctx = self.ctx
        pre = [ctx.fresh_char(img) for _ in s.pre]
        suf = [ctx.fresh_char(img) for _ in s.suf]
        L = ctx.fresh_int('L')
        ctx.add(L >= s.L)
        return LongStr(pre, suf, L, img)

    def long_strip(self, s, left, right):
        ctx = self.ctx
        sp = cls('space')
        if s.cls.disjoint(sp):
            return s
        if left and not ctx.entails(Not(in_set(s.pre[0], sp))) or right and not ctx.entails(Not(in_set(s.suf[-1], sp))):
            raise Unsupported('strip() of a long string with white space at an end')
        return s

    def long_fact(self, s, iset, lastnl=False):
        """every character of the long string is in iset (last one may be a newline if lastnl)"""
        ctx = self.ctx
        s.cls = s.cls.inter(iset)
        for c in s.pre + s.suf[:-1]:
            ctx.assume(in_set(c, iset))
        if s.suf:
            ctx.assume(in_set(s.suf[-1], iset.union(ISet([(10, 10)])) if lastnl else iset))
        s.lastnl = lastnl
