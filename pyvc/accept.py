"""Properties stated on valid numbers (C04, C05, C12, C17): re-exploration of the accepting paths of validate() and a
property-specific closure evaluated symbolically under each accepting path condition."""
import glob
import importlib
import json
import os
import sys
import time
import traceback
import z3

from . import front, isets, absstr, pool
from .sym import FixedStr, LongStr, AbstractStr, tostr, is_sym, str_eq, Not, in_set
from .ctx import Unsupported, Raise
from .explore import explore, explore_closure, func, witness_string, today_of, LONG_BOUND
from .absstr import raw_input
from .replay import call_real
from .sweep import option_valuations
from .report import ROOT


def accepting_units(tier='quick', modules=None):
    """(module -> list of (opts repr, n)) with at least one accepting path, from the C01 sweep of the current tree
    (content-hash cache; swept now if absent)"""
    from .props import vfamily
    if modules is not None and not list(modules):
        return {}
    results = vfamily.run_sweep('quick', modules, True, log=False)
    out = {}
    for m, r in results.items():
        if 'units' not in r:
            continue
        out[m] = [(u['opts'], u['n']) for u in r['units'] if u.get('accept')]
    return out


class AcceptSweep:
    """explore validate() of one module at the given lengths; call check(self, path, value, opts, n) on each
    accepting path"""

    def __init__(self, modname, lengths, checker, tier='quick', time_limit=150, prop='C??'):
        self.modname, self.lengths, self.checker, self.tier, self.prop = modname, lengths, checker, tier, prop
        self.mod = importlib.import_module(modname)
        self.qual = modname + ':validate'
        self.t0 = time.time()
        self.time_limit = time_limit
        self.findings = []
        self.obligations = []      # (id, status, detail)
        self.undecided = []
        self.samples = []
        self.stats = dict(accept_paths=0, closures=0, closure_paths=0)

    def finding(self, kind, key, **kw):
        for f in self.findings:
            if f['kind'] == kind and f['key'] == key:
                f['count'] += 1
                if kw.get('reproduced') and not f.get('reproduced'):
                    f.update(kw)
                return f
        from .sweep import has_weird
        if not kw.get('reproduced') and has_weird(kw.get('input')):
            kw['approx'] = True
        f = dict(property=self.prop, module=self.modname, kind=kind, key=key, count=1, **kw)
        self.findings.append(f)
        return f

    def run(self):
        f = func(self.mod.validate)
        for opts in option_valuations(self.mod):
            for n in self.lengths:
                if time.time() - self.t0 > self.time_limit:
                    self.undecided.append(dict(n=n, why='module time limit'))
                    continue
                def on_path(p, opts=opts, n=n):
                    if p.kind != 'return' or not isinstance(p.value, (str, FixedStr)):
                        return
                    if time.time() - self.t0 > self.time_limit:
                        if not self.undecided or self.undecided[-1].get('why') != 'module time limit':
                            self.undecided.append(dict(n=n, why='module time limit'))
                        return
                    if p.ctx.model() is None:
                        return
                    self.stats['accept_paths'] += 1
                    try:
                        self.checker(self, p, p.value, opts, n)
                    except Unsupported as u:
                        self.undecided.append(dict(n=n, why='outside the subset: ' + str(u)))
                    except z3.Z3Exception as e:
                        self.undecided.append(dict(n=n, why='z3: ' + str(e)[:60]))
                ex = explore(f, lambda ctx: [raw_input()], n, budget=4000, time_limit=max(60, min(400, self.time_limit)), kwargs=opts,
                             long_bound=LONG_BOUND, on_path=on_path, on_restart=lambda: None)
                if ex.status != 'ok':
                    self.undecided.append(dict(n=n, why=ex.status))
        return dict(module=self.modname, findings=self.findings, obligations=self.obligations, undecided=self.undecided,
                    samples=self.samples, stats=self.stats, secs=round(time.time() - self.t0, 2))

    # -- helpers for checkers
    def closure(self, path, run, budget=400, time_limit=40):
        self.stats['closures'] += 1
        from .ctx import Restart
        try:
            paths, status = explore_closure(run, budget=budget, time_limit=time_limit, base=path.ctx, cur_n=path.ctx.cur_n)
        except Restart:
            raise Unsupported('the closure normalises the raw input differently from validate()')
        self.stats['closure_paths'] += len(paths)
        return paths, status

    def witness(self, ctx, primary, extra=None):
        """input string (for the real validate) and date from a model of ctx (+extra); None if infeasible"""
        c2 = ctx.clone() if extra is not None else ctx
        try:
            if extra is not None:
                c2.assume(extra)
            res, m = c2.check_final()
        except Exception:      # noqa: B902
            return None
        if res == z3.unknown:
            # neither refuted nor discharged: the obligation this model was wanted for is undecided
            self.unknowns = getattr(self, 'unknowns', 0) + 1
            return None
        if res != z3.sat:
            return None
        m = m if m is not None else c2.s.model()
        return witness_string(c2, primary, m), today_of(c2, m)


def run_modules(task, items, limit, log=True):
    isets.warm()
    absstr.table_lemmas()
    results = {}

    def prog(r):
        item, res, secs = r
        results[item if isinstance(item, str) else item[0]] = json.loads(json.dumps(res, default=repr))
        if log:
            print('  %-40s %6.1fs %s' % (item if isinstance(item, str) else item[0], secs, str(res.get('crash', ''))[:80]), flush=True)
    pool.pool_map(task, items, None, limit, prog)
    return results
