"""Method calls on modelled values (mixin for Interp)."""
import re
import types
import datetime as _dt
import z3

from .isets import ISet, FULL, EMPTY, DIGITS, cls
from .sym import (U, And, Or, Not, Eq, If, in_set, is_sym, is_cond, is_charvar, FixedStr, LongStr, AbstractStr, Opaque,
                  SymDate, Match, LazySel, tostr, conc, simp, str_eq, str_le, toz3)
from .ctx import Raise, Unsupported, Infeasible
from .regex import RegexM, Unsupported as RxUnsupported


class Methods:
    def method(self, obj, name, args, kwargs):
        ctx = self.ctx
        if isinstance(obj, AbstractStr):
            r = self.abstract_method(obj, name, args)
            if r is not None:
                return r
            obj = self.materialise(obj)
        args = [self.materialise(a) if isinstance(a, AbstractStr) else a for a in args]
        if isinstance(obj, Match):
            return self.match_method(obj, name, args)
        if isinstance(obj, re.Pattern):
            return self.pattern_method(obj, name, args, kwargs)
        if isinstance(obj, dict):
            return self.dict_method(obj, name, args, kwargs)
        if isinstance(obj, list):
            if name == 'append':
                obj.append(args[0])
                return None
            if name == 'extend':
                obj.extend(self.iter(args[0]))
                return None
            if name == 'pop':
                if not obj:
                    raise Raise(IndexError, 'pop from empty list')
                return obj.pop(*args)
            if name == 'index':
                return self.index_of(obj, args[0])
            if name == 'insert':
                obj.insert(*args)
                return None
            raise Unsupported('list.' + name)
        if isinstance(obj, tuple):
            if name == 'index':
                return self.index_of(obj, args[0])
            if name == 'count' and all(not is_sym(x) for x in obj) and not is_sym(args[0]):
                return obj.count(args[0])
            raise Unsupported('tuple.' + name)
        if isinstance(obj, LazySel):
            if name == 'index' and all(isinstance(r, tuple) for r in obj.seq) and isinstance(args[0], int):
                vals = []
                for r in obj.seq:
                    vals.append(r.index(args[0]) if args[0] in r else -1)
                e = z3.IntVal(vals[-1])
                for k in reversed(range(len(vals) - 1)):
                    e = z3.If(obj.idx == k, vals[k], e)
                res = ctx.fresh_int('ix')
                ctx.add(res == e)
                ctx.require(res >= 0, ValueError, 'tuple.index: value not in tuple')
                return res
            raise Unsupported('method %s on a symbolically selected row' % name)
        if isinstance(obj, LongStr):
            return self.long_method(obj, name, args, kwargs)
        if isinstance(obj, (str, FixedStr)):
            return self.str_method(obj, name, args, kwargs)
        if isinstance(obj, SymDate):
            return self.date_method(obj, name, args, kwargs)
        if isinstance(obj, (_dt.date, _dt.datetime)):
            if name == 'strftime':
                return obj.strftime(*args)
            raise Unsupported('date.' + name)
        if isinstance(obj, bool) or obj is None:
            raise Raise(AttributeError, '%s has no attribute %s' % (type(obj).__name__, name))
        if isinstance(obj, int):
            if name == 'bit_length':
                return obj.bit_length()
            raise Raise(AttributeError, 'int has no attribute ' + name)
        if is_sym(obj) and not is_cond(obj):
            if name == 'bit_length':
                raise Unsupported('bit_length of a symbolic int')
            raise Raise(AttributeError, 'int has no attribute ' + name)
        h = self.object_method(obj, name, args, kwargs)
        if h is not NotImplemented:
            return h
        if isinstance(obj, (re.Match, bytes, float, set, frozenset)) or type(obj).__module__ in ('hashlib', '_hashlib', 'decimal', '_sha2', '_blake2'):
            cargs = [self.norm_str(a) for a in args]
            if all(not isinstance(a, (FixedStr, LongStr)) and not is_sym(a) for a in cargs):
                return self.native(getattr(obj, name), cargs, kwargs)
        raise Unsupported('method %s on %s' % (name, type(obj).__name__))

    def object_method(self, obj, name, args, kwargs):
        return NotImplemented

    # ------------------------------------------------------------------ regex
    def match_method(self, obj, name, args):
        def grp(g):
            if isinstance(g, str):
                if g not in obj.rx.groupdict:
                    raise Raise(IndexError, 'no such group')
                g = obj.rx.groupdict[g]
            if g == 0:
                return simp(FixedStr(obj.s.chars[obj.start:obj.end]))
            if not (0 < g <= obj.rx.ngroups - 1):
                raise Raise(IndexError, 'no such group')
            if g not in obj.groups:
                return None
            a, b = obj.groups[g]
            return simp(FixedStr(obj.s.chars[a:b]))
        if obj.s is None:
            raise Unsupported('groups of a match on a long string')
        if name == 'group':
            if len(args) <= 1:
                return grp(args[0] if args else 0)
            return tuple(grp(a) for a in args)
        if name == 'groups':
            return tuple(grp(g) for g in range(1, obj.rx.ngroups))
        if name == 'groupdict':
            return {k: grp(v) for k, v in obj.rx.groupdict.items()}
        if name == 'start' and not args:
            return obj.start
        if name == 'end' and not args:
            return obj.end
        raise Unsupported('match.' + name)

    def pattern_method(self, obj, name, args, kwargs):
        if name in ('match', 'search', 'fullmatch'):
            try:
                rx = RegexM.get(obj.pattern, obj.flags)
            except RxUnsupported as e:
                raise Unsupported(str(e))
            return self.regex_match(rx, args[0], name)
        if name in ('sub', 'findall', 'split'):
            cargs = [self.norm_str(a) for a in args]
            if all(isinstance(a, (str, int)) or callable(a) or type(a).__name__ == 'Func' for a in cargs):
                return self.native(getattr(obj, name), cargs, kwargs)
            raise Unsupported('pattern.%s on a symbolic string' % name)
        raise Unsupported('pattern.' + name)

    def regex_match(self, rx, s, mode):
        ctx = self.ctx
        if isinstance(s, AbstractStr):
            s = self.materialise(s)
        if isinstance(s, LongStr):
            return self.long_regex(rx, s, mode)
        if s is None or isinstance(s, (int, tuple, list)) or (is_sym(s)):
            raise Raise(TypeError, 'expected string or bytes-like object')
        s = self.norm_str(s)
        if isinstance(s, str):
            m = getattr(re.compile(rx.pattern, rx.flags), mode)(s)
            if m is None:
                return None
            groups = {g: m.span(g) for g in range(1, rx.ngroups) if m.span(g) != (-1, -1)}
            return Match(FixedStr([ord(c) for c in s]), m.start(), m.end(), groups, rx)
        if not isinstance(s, FixedStr):
            raise Unsupported('regex on %r' % type(s).__name__)
        try:
            alts = rx.alternatives(s.chars, mode != 'search')
        except RxUnsupported as e:
            raise Unsupported(str(e))
        for c, st, e, g in alts:
            if mode == 'fullmatch' and e != len(s):
                continue
            if ctx.branch(c):
                return Match(s, st, e, g, rx)
        return None

    def long_regex(self, rx, s, mode):
        ctx = self.ctx
        try:
            lo, hi = rx.width()
            both, dollar = rx.anchored_both()
            alpha = rx.alphabet()
        except RxUnsupported as e:
            raise Unsupported(str(e))
        if not both:
            raise Unsupported('regex that is not anchored at both ends on a long string')
        maxw = None if hi is None else hi + (1 if dollar else 0)
        if maxw is not None and ctx.entails(s.L > maxw):
            return None
        b = ctx.fresh_bool('rx')
        if ctx.branch(b):
            if maxw is not None:
                ctx.add(s.L <= maxw)
            ctx.add(s.L >= lo)
            self.long_fact(s, alpha, lastnl=dollar)
            ctx.mark_approx('regex on a long string (necessary conditions only)')
            return Match(None, 0, 0, {}, rx)
        return None

    # ------------------------------------------------------------------ dict
    def dict_method(self, obj, name, args, kwargs):
        ctx = self.ctx
        if name == 'get':
            key = args[0]
            dflt = args[1] if len(args) > 1 else None
            key = self.norm_str(key)
            if isinstance(key, (str, int, tuple)) and not isinstance(key, FixedStr) and not any(is_sym(x) for x in (key if isinstance(key, tuple) else ())):
                return obj.get(key, dflt)
            if key is None:
                return obj.get(None, dflt)
            if isinstance(key, FixedStr) and len(key) == 1 and not isinstance(key.chars[0], int):
                ch = key.chars[0]
                d = self._dom(ch)
                ks = [k for k in obj if isinstance(k, str) and len(k) == 1 and d.contains(ord(k))]
                if not ks:
                    return dflt
                dch = None
                if isinstance(dflt, (str, FixedStr)) and len(tostr(dflt)) == 1:
                    dch = tostr(dflt).chars[0]
                if dch is not None and all(isinstance(obj[k], str) and len(obj[k]) == 1 for k in ks):
                    kset = ISet.of(ks)
                    rest = d.minus(kset)
                    img = ISet.of([obj[k] for k in ks])
                    if not rest.empty():
                        img = img.union(self._dom(dch) if not isinstance(dch, int) and dch is not ch else (rest if dch is ch else ISet([(dch, dch)])))
                    u = ctx.fresh_char(img, 'm')
                    e = dch if is_sym(dch) else z3.IntVal(dch)
                    for k in ks:
                        e = z3.If(ch == ord(k), ord(obj[k]), e)
                    ctx.add(u == e)
                    return FixedStr([u])
            if ctx.branch(self.contains(obj, key)):
                return self.subscript(obj, key)
            return dflt
        if name in ('values', 'keys', 'items'):
            return list(getattr(obj, name)())
        if name == 'update':
            if args:
                a = args[0]
                obj.update(a if isinstance(a, dict) else dict(self.iter(a)))
            obj.update(kwargs)
            return None
        if name == 'pop':
            key = self.norm_str(args[0])
            if isinstance(key, FixedStr):
                key = self.need_concrete(key, 'dict key')
            if key in obj:
                return obj.pop(key)
            if len(args) > 1:
                return args[1]
            raise Raise(KeyError, repr(key))
        if name == 'copy':
            return dict(obj)
        if name == 'setdefault':
            key = self.norm_str(args[0])
            if isinstance(key, FixedStr):
                key = self.need_concrete(key, 'dict key')
            return obj.setdefault(key, *args[1:])
        raise Unsupported('dict.' + name)

    # ------------------------------------------------------------------ str
    def str_method(self, obj, name, args, kwargs):
        ctx = self.ctx
        obj = self.norm_str(obj)
        nargs = [self.norm_str(a) if isinstance(a, (str, FixedStr)) else a for a in args]
        if isinstance(obj, str) and name != 'join' and all(isinstance(a, (str, int, tuple, type(None))) and not is_sym(a) for a in nargs) \
                and not kwargs and hasattr(str, name):
            try:
                return getattr(obj, name)(*nargs)
            except (ValueError, TypeError, IndexError) as e:
                raise Raise(type(e), 'str.%s: %s' % (name, e))
        args = nargs
        if name == 'join':
            sep = tostr(obj)
            out = []
            from .interp import OpaqueSeq
            if isinstance(args[0], OpaqueSeq) and len(sep) == 0:
                el = args[0].elem
                if isinstance(el, (str, FixedStr)) and isinstance(args[0].src, LongStr):
                    el = tostr(el)
                    dom = EMPTY
                    for c in el.chars:
                        dom = dom.union(self._dom(c))
                    src = args[0].src
                    if len(el) == 1 and args[0].cond is None:
                        pre = [ctx.fresh_char(dom) for _ in src.pre]
                        suf = [ctx.fresh_char(dom) for _ in src.suf]
                        ctx.mark_approx('join over a long string')
                        return LongStr(pre, suf, src.L, dom)
                    if len(el) >= 1 and args[0].cond is None:
                        pre = [ctx.fresh_char(dom) for _ in src.pre]
                        suf = [ctx.fresh_char(dom) for _ in src.suf]
                        L2 = ctx.fresh_int('L')
                        ctx.add(L2 >= src.L)
                        ctx.mark_approx('join over a long string')
                        return LongStr(pre, suf, L2, dom)
                raise Unsupported('join of an unbounded sequence')
            items = self.iter(args[0])
            for i, it in enumerate(items):
                if isinstance(it, AbstractStr):
                    it = self.materialise(it)
                if isinstance(it, LongStr):
                    if len(items) == 1:
                        return it
                    raise Unsupported('join with a long item')
                if not isinstance(it, (str, FixedStr)):
                    if isinstance(it, Opaque):
                        raise Unsupported('join of %r' % it)
                    raise Raise(TypeError, 'sequence item %d: expected str instance' % i)
                it = tostr(it)
                if i:
                    out += sep.chars
                out += it.chars
            return simp(FixedStr(out))
        s = tostr(obj)
        n = len(s)
        if name == 'index' or name == 'find':
            x = args[0]
            if isinstance(obj, str):
                if name == 'index':
                    return self.index_of(obj, x)
                x = tostr(x)
                if isinstance(x, FixedStr) and len(x) == 1:
                    e = z3.IntVal(-1)
                    for i in reversed(range(len(obj))):
                        e = z3.If(x.chars[0] == ord(obj[i]), i, e)
                    return e
                raise Unsupported('find of a symbolic string')
            # symbolic haystack, concrete or symbolic single-char needle
            x = tostr(x)
            if not isinstance(x, FixedStr):
                raise Raise(TypeError, 'must be str')
            m = len(x)
            for i in range(0, n - m + 1):
                if ctx.branch(str_eq(FixedStr(s.chars[i:i + m]), x)):
                    return i
            if name == 'index':
                raise Raise(ValueError, 'substring not found')
            return -1
        if name in ('startswith', 'endswith'):
            p = args[0]
            if isinstance(p, tuple):
                return Or(*[self.str_method(s, name, [q], {}) for q in p])
            if isinstance(p, LongStr):
                return False
            if not isinstance(p, (str, FixedStr)):
                raise Raise(TypeError, '%s first arg must be str' % name)
            p = tostr(p)
            if len(p) > n:
                return False
            return str_eq(FixedStr(s.chars[:len(p)] if name == 'startswith' else s.chars[n - len(p):]), p)
        if name == 'zfill':
            w = args[0]
            if n >= w:
                return s
            if n:
                sg = in_set(s.chars[0], ISet.of('+-'))
                if sg is not False and ctx.branch(sg):
                    return FixedStr([s.chars[0]] + [48] * (w - n) + s.chars[1:])
            return FixedStr([48] * (w - n) + s.chars)
        if name in ('rjust', 'ljust'):
            w, p = args[0], (args[1] if len(args) > 1 else ' ')
            padc = [ord(p)] * max(0, w - n)
            return FixedStr(padc + s.chars if name == 'rjust' else s.chars + padc)
        if name in ('isdigit', 'isalpha', 'isalnum', 'isspace', 'isdecimal', 'isnumeric', 'isascii', 'isupper', 'islower'):
            if name == 'isascii':
                return And(*[in_set(ch, cls('ascii')) for ch in s.chars])
            if n == 0:
                return False
            if name in ('isupper', 'islower'):
                raise Unsupported('str.' + name)
            k = {'isdigit': 'digit', 'isalpha': 'alpha', 'isalnum': 'alnum', 'isspace': 'space', 'isdecimal': 'decimal',
                 'isnumeric': 'numeric'}[name]
            return And(*[in_set(ch, cls(k)) for ch in s.chars])
        if name in ('upper', 'lower'):
            return self.map_case(name, s)
        if name in ('strip', 'lstrip', 'rstrip'):
            chars = None
            if args and args[0] is not None:
                chars = args[0]
                if not isinstance(chars, str):
                    raise Unsupported('strip with a symbolic character set')
            return simp(self.exec_strip(s, chars, name != 'rstrip', name != 'lstrip'))
        if name == 'replace':
            a, b = tostr(args[0]), tostr(args[1])
            ca = conc(a)
            if ca is not None and len(ca) == 1:
                out = []
                for ch in s.chars:
                    if isinstance(ch, int):
                        out += (b.chars if ch == a.chars[0] else [ch])
                    elif ctx.branch(Eq(ch, a.chars[0])):
                        out += b.chars
                    else:
                        out.append(ch)
                return simp(FixedStr(out))
            if ca is not None and len(ca) > 1:
                out = []
                i = 0
                m = len(ca)
                while i < n:
                    if i + m <= n and ctx.branch(str_eq(FixedStr(s.chars[i:i + m]), ca)):
                        out += b.chars
                        i += m
                    else:
                        out.append(s.chars[i])
                        i += 1
                return simp(FixedStr(out))
            if isinstance(a, FixedStr) and len(a) >= 1 and isinstance(b, FixedStr) and (len(args) < 3 or args[2] is None or args[2] == -1):
                # a pattern of known length with symbolic characters: left-to-right scan, non-overlapping (str.replace)
                out = []
                i = 0
                m = len(a)
                while i < n:
                    if i + m <= n and ctx.branch(str_eq(FixedStr(s.chars[i:i + m]), a)):
                        out += b.chars
                        i += m
                    else:
                        out.append(s.chars[i])
                        i += 1
                return simp(FixedStr(out))
            raise Unsupported('replace of a symbolic pattern')
        if name in ('split', 'rsplit'):
            sep = args[0] if args else None
            maxsplit = args[1] if len(args) > 1 else kwargs.get('maxsplit', -1)
            if sep is None or not isinstance(sep, str) or len(sep) != 1:
                raise Unsupported('split without a one-character separator')
            hits = []
            for i, ch in enumerate(s.chars):
                if (ch == ord(sep)) if isinstance(ch, int) else ctx.branch(Eq(ch, ord(sep))):
                    hits.append(i)
            if maxsplit is not None and maxsplit >= 0:
                hits = hits[:maxsplit] if name == 'split' else hits[len(hits) - maxsplit:] if maxsplit else []
            parts = []
            prev = 0
            for h in hits:
                parts.append(simp(FixedStr(s.chars[prev:h])))
                prev = h + 1
            parts.append(simp(FixedStr(s.chars[prev:])))
            return parts
        if name == 'format':
            raise Unsupported('str.format')
        if name == 'encode':
            if all(self._dom(ch).subset(cls('ascii')) for ch in s.chars):
                return Opaque('bytes', s)
            raise Unsupported('encode of a possibly non-ASCII symbolic string')
        if name == 'count':
            x = tostr(args[0])
            if len(x) == 1:
                t = 0
                for ch in s.chars:
                    t = t + If(Eq(ch, x.chars[0]), 1, 0)
                return t
            raise Unsupported('count of a multi-character string')
        if name == 'title' or name == 'capitalize' or name == 'swapcase' or name == 'casefold':
            raise Unsupported('str.' + name)
        if not hasattr(str, name):
            raise Raise(AttributeError, "'str' object has no attribute %r" % name)
        raise Unsupported('str.' + name)

    def long_method(self, obj, name, args, kwargs):
        ctx = self.ctx
        if name == 'startswith':
            p = args[0]
            if isinstance(p, tuple):
                return Or(*[self.long_method(obj, name, [q], {}) for q in p])
            p = tostr(p)
            if len(p) > len(obj.pre):
                raise Unsupported('startswith longer than the materialised prefix')
            return str_eq(FixedStr(obj.pre[:len(p)]), p)
        if name == 'endswith':
            p = args[0]
            if isinstance(p, tuple):
                return Or(*[self.long_method(obj, name, [q], {}) for q in p])
            p = tostr(p)
            if len(p) > len(obj.suf):
                raise Unsupported('endswith longer than the materialised suffix')
            return str_eq(FixedStr(obj.suf[len(obj.suf) - len(p):]), p)
        if name in ('zfill', 'rjust', 'ljust'):
            w = args[0]
            if isinstance(w, int) and ctx.entails(obj.L >= w):
                return obj
            raise Unsupported('padding of a long string')
        if name in ('isdigit', 'isalpha', 'isalnum', 'isdecimal', 'isspace'):
            k = cls({'isdigit': 'digit', 'isalpha': 'alpha', 'isalnum': 'alnum', 'isdecimal': 'decimal', 'isspace': 'space'}[name])
            if obj.cls.subset(k) and not obj.lastnl:
                return True
            if ctx.branch(ctx.fresh_bool('cls')):
                self.long_fact(obj, k)
                return True
            return False
        if name == 'isascii':
            if obj.cls.subset(cls('ascii')) and not obj.lastnl:
                return True
            if ctx.branch(ctx.fresh_bool('cls')):
                self.long_fact(obj, cls('ascii'))
                return True
            return False
        if name in ('upper', 'lower'):
            return self.long_case(obj, name)
        if name in ('strip', 'lstrip', 'rstrip'):
            if args and args[0] is not None:
                st = ISet.of(args[0])
                if obj.cls.disjoint(st):
                    return obj
                okl = name == 'rstrip' or ctx.entails(Not(in_set(obj.pre[0], st)))
                okr = name == 'lstrip' or ctx.entails(Not(in_set(obj.suf[-1], st)))
                if okl and okr:
                    return obj
                # length shrinks by an unknown amount: the result can be any suffix/prefix
                raise Unsupported('strip(chars) of a long string that may start or end with them')
            return self.long_strip(obj, name != 'rstrip', name != 'lstrip')
        if name == 'replace':
            a, b = args[0], args[1]
            if isinstance(a, str) and isinstance(b, str):
                if all(not obj.cls.contains(ord(x)) for x in a[:1]):
                    return obj
                if len(a) == 1 and len(b) <= 1:
                    ctx.mark_approx('replace on a long string')
                    nc = obj.cls.minus(ISet.of(a)).union(ISet.of(b))
                    pre = [ctx.fresh_char(nc) for _ in obj.pre]
                    suf = [ctx.fresh_char(nc) for _ in obj.suf]
                    if len(b) == 1:
                        return LongStr(pre, suf, obj.L, nc)
                    raise Unsupported('deleting replace on a long string')
            raise Unsupported('replace on a long string')
        if name in ('split', 'rsplit'):
            sep = args[0] if args else None
            if isinstance(sep, str) and len(sep) == 1 and not obj.cls.contains(ord(sep)) and not (obj.lastnl and sep == '\n'):
                return [obj]
            raise Unsupported('split of a long string')
        if name in ('index', 'find', 'count', 'join', 'format', 'encode'):
            raise Unsupported('LongStr.%s' % name)
        raise Unsupported('LongStr.' + name)

    # ------------------------------------------------------------------ dates
    def date_method(self, obj, name, args, kwargs):
        if name == 'strftime':
            fmt = args[0]
            out = []
            i = 0
            while i < len(fmt):
                if fmt[i] == '%' and i + 1 < len(fmt):
                    k = fmt[i + 1]
                    if k == 'Y':
                        out += tostr(self.int_to_str(obj.y, 4, '0')).chars
                    elif k == 'y':
                        out += tostr(self.int_to_str(obj.y % 100, 2, '0')).chars
                    elif k == 'm':
                        out += tostr(self.int_to_str(obj.m, 2, '0')).chars
                    elif k == 'd':
                        out += tostr(self.int_to_str(obj.d, 2, '0')).chars
                    else:
                        raise Unsupported('strftime %' + k)
                    i += 2
                else:
                    out.append(ord(fmt[i]))
                    i += 1
            return simp(FixedStr(out))
        if name == 'date':
            return SymDate(obj.y, obj.m, obj.d)
        if name == 'replace':
            return SymDate(kwargs.get('year', obj.y), kwargs.get('month', obj.m), kwargs.get('day', obj.d))
        if name == 'isoformat':
            return self.date_method(obj, 'strftime', ['%Y-%m-%d'], {})
        raise Unsupported('date.' + name)
