"""Path exploration by re-execution with a decision prefix (depth first)."""
import time
import z3

from .sym import FixedStr, LongStr, AbstractStr, Opaque, is_sym, tostr
from .ctx import Ctx, Raise, Unsupported, Infeasible, Restart, ReturnSig
from .interp import Interp, Func, CONTRACTS
from . import contracts_core
from .absstr import raw_input
from . import front

LONG_BOUND = 40


class Path:
    __slots__ = ('ctx', 'kind', 'value', 'exc', 'why', 'site', 'interp')

    def __init__(self, ctx, kind, value=None, exc=None, why='', site=None, interp=None):
        self.ctx, self.kind, self.value, self.exc, self.why, self.site, self.interp = ctx, kind, value, exc, why, site, interp

    def __repr__(self):
        if self.kind == 'return':
            return 'Path(return %r)' % (self.value,)
        return 'Path(raise %s: %s)' % (self.exc.__name__, self.why)


UNSUPPORTED_PATHS = 40       # a unit with more paths outside the subset than this is given up


class Exploration:
    def __init__(self):
        self.paths = []
        self.status = 'ok'          # ok | unsupported: ... | budget | timeout
        self.checks = 0
        self.fast = 0
        self.unknowns = 0
        self.restarts = 0
        self.secs = 0.0
        self.unsupported = []       # reasons of the paths that left the subset


def explore(fn, make_args, cur_n, budget=600, time_limit=120.0, long_bound=LONG_BOUND, base=None, kwargs=None,
            interp_cls=Interp, force_primary=None, setup=None, on_path=None, on_restart=None, prefer=True):
    """all paths of fn(*make_args(ctx), **kwargs).  fn: Func.  make_args(ctx) -> list of argument values.
    base: a Ctx to clone for every path (nested exploration under an existing path condition)."""
    ex = Exploration()
    t0 = time.time()
    work = [[]]
    while work:
        dec = work.pop()
        if len(ex.paths) + getattr(ex, 'npaths', 0) >= budget:
            ex.status = 'budget'
            break
        if time.time() - t0 > time_limit:
            ex.status = 'timeout'
            break
        if base is not None:
            ctx = base.clone()
            ctx.decisions = list(dec)
        else:
            ctx = Ctx(dec, cur_n)
        ctx.cur_n = cur_n
        ctx.long_bound = long_bound
        ctx.force_primary = force_primary
        ctx.prefer = prefer
        it = interp_cls(ctx)
        if setup:
            setup(it)
        try:
            try:
                args = make_args(ctx)
                ctx.input = args
                v = it.call(fn, list(args), dict(kwargs or {}), {}, fn.module)
                if isinstance(v, AbstractStr):
                    v = it.materialise(v)
                p = Path(ctx, 'return', value=v, interp=it)
            except Raise as r:
                if r.approx:
                    ctx.mark_approx(r.why)
                p = Path(ctx, 'raise', exc=r.cls, why=r.why, site=r.site, interp=it)
            except Infeasible:
                work.extend(ctx.new)
                ex.checks += ctx.checks
                ex.fast += ctx.fast
                continue
            except ReturnSig as r:
                p = Path(ctx, 'return', value=r.v, interp=it)
            if on_path is not None:
                # streaming: the path (and its solver) is handed over and dropped, not kept
                ex.npaths = getattr(ex, 'npaths', 0) + 1
                on_path(p)
                p = None
            else:
                ex.paths.append(p)
        except Restart as r:
            if force_primary is not None and force_primary.key() == r.primary.key():
                ex.status = 'unsupported: conflicting normalisations of the input'
                break
            if on_path is not None and getattr(ex, 'npaths', 0):
                if on_restart is None:
                    ex.status = 'unsupported: conflicting normalisations of the input (met after some paths were reported)'
                    break
                on_restart()          # the paths reported so far are explored again under the refined input: the consumer resets its counters
            ex2 = explore(fn, make_args, cur_n, budget, max(1.0, time_limit - (time.time() - t0)), long_bound, base, kwargs,
                          interp_cls, r.primary if force_primary is None else force_primary.meet(r.primary), setup, on_path, on_restart, prefer)
            ex2.restarts += 1 + ex.restarts
            ex2.secs = time.time() - t0
            return ex2
        except Unsupported as u:
            # this path leaves the subset: the unit stays undecided, but the other paths are still explored (what they
            # refute is reported; nothing is claimed proved for the unit)
            ex.unsupported.append(str(u))
            if len(ex.unsupported) > UNSUPPORTED_PATHS:
                break
        except z3.Z3Exception as e:
            ex.status = 'unsupported: z3 term error %s' % str(e)[:80]
            break
        except RecursionError:
            ex.status = 'unsupported: recursion depth'
            break
        work.extend(ctx.new)
        ex.checks += ctx.checks
        ex.fast += ctx.fast
        ex.unknowns += ctx.unknowns
    if ex.unsupported and ex.status == 'ok':
        ex.status = 'unsupported: ' + ex.unsupported[0]
    ex.secs = time.time() - t0
    return ex


def func(pyfunc):
    return front.func_of(pyfunc, Func)


def witness_string(ctx, v=None, model=None):
    """concrete python string for the primary input (or value v) from a model of the path condition"""
    m = model if model is not None else ctx.model()
    if m is None:
        return None
    v = ctx.primary if v is None else v
    if v is None:
        return ''
    if isinstance(v, str):
        return v
    if isinstance(v, FixedStr):
        return ''.join(chr(ctx.eval_char(m, c)) for c in v.chars)
    if isinstance(v, LongStr):
        L = m.eval(v.L, model_completion=True).as_long()
        pre = ''.join(chr(ctx.eval_char(m, c)) for c in v.pre)
        suf = ''.join(chr(ctx.eval_char(m, c)) for c in v.suf)
        mid = max(0, L - len(pre) - len(suf))
        fill = chr(v.cls.pick(prefer=(48, 65)))
        return pre + fill * mid + suf
    return None


def today_of(ctx, model):
    if ctx.today is None:
        return None
    return tuple(model.eval(x, model_completion=True).as_long() for x in ctx.today)


def explore_closure(run, budget=5000, time_limit=120.0, interp_cls=Interp, cur_n=0, base=None, lazy_rel=False):
    """all paths of a closure run(I, ctx) -> value; Raise outcomes are returned as the exception object"""
    out = []
    work = [[]]
    t0 = time.time()
    status = 'ok'
    nunsup = 0
    first_unsup = None
    while work:
        dec = work.pop()
        if len(out) >= budget or time.time() - t0 > time_limit:
            status = 'budget'
            break
        if base is not None:
            ctx = base.clone()
            ctx.decisions = list(dec)
        else:
            ctx = Ctx(dec, cur_n)
        ctx.long_bound = LONG_BOUND
        if lazy_rel:
            ctx.lazy_rel = True       # unary decisions on relationally tied characters are not confirmed by the solver: more paths,
            # fewer queries; every verdict is confirmed on the complete path condition anyway
        I = interp_cls(ctx)
        try:
            out.append((ctx, run(I, ctx)))
        except Raise as r:
            out.append((ctx, r))
        except Infeasible:
            pass
        except Unsupported as u:
            # this path leaves the subset: the obligation is undecided, the other paths are still explored so that what
            # they refute can be reported; with no other path at all the caller gets the exception as before
            nunsup += 1
            first_unsup = first_unsup or u
            if nunsup > UNSUPPORTED_PATHS:
                status = 'unsupported: ' + str(first_unsup)
                break
        work.extend(ctx.new)
    if nunsup:
        if not out:
            raise first_unsup
        if status == 'ok':
            status = 'unsupported: ' + str(first_unsup)
    return out, status
