"""Regular expressions: CPython's own parse tree (re._parser) interpreted over FixedStr.

For a string of known length the finitely many match shapes are enumerated in backtracking priority order; each
shape is a condition (mostly unary per character) and its group slices.  `$` matches at the end and before a
trailing newline, exactly as in CPython.
"""
import re
import re._parser as sre_parse

from .isets import ISet, cls, EMPTY, FULL
from .sym import And, Or, Not, Eq, in_set, is_charvar


class Unsupported(Exception):
    pass


_CAT = {
    'CATEGORY_DIGIT': ('decimal', False), 'CATEGORY_NOT_DIGIT': ('decimal', True),
    'CATEGORY_WORD': ('word', False), 'CATEGORY_NOT_WORD': ('word', True),
    'CATEGORY_SPACE': ('space', False), 'CATEGORY_NOT_SPACE': ('space', True),
}


class RegexM:
    _cache = {}

    @classmethod
    def get(cls_, pattern, flags=0):
        key = (pattern, int(flags))
        r = cls_._cache.get(key)
        if r is None:
            r = cls_._cache[key] = RegexM(pattern, flags)
        return r

    def __init__(self, pattern, flags=0):
        if isinstance(pattern, bytes):
            raise Unsupported('bytes pattern')
        flags = int(flags) & ~int(re.U)
        self.pattern = pattern
        self.tree = sre_parse.parse(pattern, flags)
        self.flags = self.tree.state.flags
        if self.flags & (re.A | re.L | re.X | re.M | re.S):
            # ASCII / LOCALE / VERBOSE(handled by parser) / MULTILINE / DOTALL change semantics we do not model
            if self.flags & (re.A | re.L | re.M | re.S):
                raise Unsupported('regex flags %r' % self.flags)
        self.ngroups = self.tree.state.groups
        self.groupdict = dict(self.tree.state.groupdict)

    # -- single character tests
    def cls_set(self, items):
        """ISet for a character class (IN node)"""
        neg = False
        s = EMPTY
        for op, av in items:
            op = str(op)
            if op == 'NEGATE':
                neg = True
            elif op == 'LITERAL':
                s = s.union(self.lit_set(av))
            elif op == 'RANGE':
                s = s.union(self.rng_set(av[0], av[1]))
            elif op == 'CATEGORY':
                name, n = _CAT[str(av)]
                c = cls(name)
                if name == 'word' and False:
                    pass
                s = s.union(c.compl() if n else c)
            else:
                raise Unsupported('regex class ' + op)
        return s.compl() if neg else s

    def lit_set(self, cp):
        if self.flags & re.I:
            ch = chr(cp)
            alts = {cp}
            for y in (ch.lower(), ch.upper()):
                if len(y) == 1:
                    alts.add(ord(y))
            # sre's case-insensitive matching compares lower-cased forms; add characters whose lower() is ours
            return ISet.norm([(x, x) for x in alts])
        return ISet([(cp, cp)])

    def rng_set(self, a, b):
        if self.flags & re.I:
            cps = set()
            for x in range(a, b + 1):
                ch = chr(x)
                cps.add(x)
                for y in (ch.lower(), ch.upper()):
                    if len(y) == 1:
                        cps.add(ord(y))
            return ISet.norm([(x, x) for x in cps])
        return ISet([(a, b)])

    def one(self, op, av, c):
        if op == 'LITERAL':
            return in_set(c, self.lit_set(av))
        if op == 'NOT_LITERAL':
            return in_set(c, self.lit_set(av).compl())
        if op == 'IN':
            return in_set(c, self.cls_set(av))
        if op == 'ANY':
            return in_set(c, ISet([(10, 10)]).compl())
        raise Unsupported(op)

    # -- matcher
    def m(self, items, s, i, groups, k):
        """generator of (cond, end, groups) for matching items[k:] at position i of char list s"""
        if k == len(items):
            yield True, i, groups
            return
        op, av = items[k]
        op = str(op)
        n = len(s)
        if op == 'AT':
            at = str(av)
            if at in ('AT_BEGINNING', 'AT_BEGINNING_STRING'):
                if i == 0:
                    yield from self.m(items, s, i, groups, k + 1)
            elif at == 'AT_END':
                if i == n:
                    yield from self.m(items, s, i, groups, k + 1)
                elif i == n - 1:
                    c0 = Eq(s[i], 10)
                    if c0 is not False:
                        for c, e, g in self.m(items, s, i, groups, k + 1):
                            yield And(c0, c), e, g
            elif at == 'AT_END_STRING':
                if i == n:
                    yield from self.m(items, s, i, groups, k + 1)
            else:
                raise Unsupported('regex AT ' + at)
        elif op in ('LITERAL', 'NOT_LITERAL', 'IN', 'ANY'):
            if i < n:
                c0 = self.one(op, av, s[i])
                if c0 is not False:
                    for c, e, g in self.m(items, s, i + 1, groups, k + 1):
                        yield And(c0, c), e, g
        elif op == 'SUBPATTERN':
            gid, _a, _d, sub = av
            for c1, e1, g1 in self.m(list(sub), s, i, groups, 0):
                g2 = g1
                if gid is not None:
                    g2 = dict(g1)
                    g2[gid] = (i, e1)
                for c, e, g in self.m(items, s, e1, g2, k + 1):
                    yield And(c1, c), e, g
        elif op in ('MAX_REPEAT', 'MIN_REPEAT', 'POSSESSIVE_REPEAT'):
            if op == 'POSSESSIVE_REPEAT':
                raise Unsupported('possessive repeat')
            lo, hi, sub = av
            sub = list(sub)
            lo = int(lo)
            # fast path: repeat of a single-character item
            single = len(sub) == 1 and str(sub[0][0]) in ('LITERAL', 'NOT_LITERAL', 'IN', 'ANY')
            maxc = n - i if str(hi) == 'MAXREPEAT' else min(int(hi), n - i)
            if single:
                sop, sav = str(sub[0][0]), sub[0][1]
                conds = []
                for j in range(maxc):
                    c0 = self.one(sop, sav, s[i + j])
                    if c0 is False:
                        maxc = j
                        break
                    conds.append(c0)
                counts = range(maxc, lo - 1, -1) if op == 'MAX_REPEAT' else range(lo, maxc + 1)
                for cnt in counts:
                    c1 = And(*conds[:cnt])
                    if c1 is False:
                        continue
                    for c, e, g in self.m(items, s, i + cnt, groups, k + 1):
                        yield And(c1, c), e, g
                return

            def rep(cnt, pos, g):
                if cnt == 0:
                    yield True, pos, g
                    return
                for c1, e1, g1 in self.m(sub, s, pos, g, 0):
                    if e1 == pos:
                        continue
                    for c2, e2, g2 in rep(cnt - 1, e1, g1):
                        yield And(c1, c2), e2, g2
            counts = range(maxc, lo - 1, -1) if op == 'MAX_REPEAT' else range(lo, maxc + 1)
            for cnt in counts:
                for c1, e1, g1 in rep(cnt, i, groups):
                    for c, e, g in self.m(items, s, e1, g1, k + 1):
                        yield And(c1, c), e, g
        elif op == 'BRANCH':
            for br in av[1]:
                for c1, e1, g1 in self.m(list(br), s, i, groups, 0):
                    for c, e, g in self.m(items, s, e1, g1, k + 1):
                        yield And(c1, c), e, g
        else:
            raise Unsupported('regex op ' + op)

    def alternatives(self, s, anchored_start=True, limit=3000):
        out = []
        starts = [0] if anchored_start else range(len(s) + 1)
        if not anchored_start:
            items = list(self.tree)
            if items and str(items[0][0]) == 'AT' and str(items[0][1]) in ('AT_BEGINNING', 'AT_BEGINNING_STRING'):
                starts = [0]
        for st in starts:
            for c, e, g in self.m(list(self.tree), s, st, {}, 0):
                if c is not False:
                    out.append((c, st, e, g))
                    if len(out) > limit:
                        raise Unsupported('regex: too many shapes')
        return out

    # -- necessary conditions for strings of unknown (large) length
    def width(self):
        lo, hi = self.tree.getwidth()
        return int(lo), (None if int(hi) >= 2 ** 31 - 1 or str(hi) == 'MAXREPEAT' else int(hi))

    def anchored_both(self):
        items = list(self.tree)
        if len(items) < 2:
            return False, False
        a = str(items[0][0]) == 'AT' and str(items[0][1]) in ('AT_BEGINNING', 'AT_BEGINNING_STRING')
        b = str(items[-1][0]) == 'AT' and str(items[-1][1]) in ('AT_END', 'AT_END_STRING')
        dollar = b and str(items[-1][1]) == 'AT_END'
        return (a and b), dollar

    def alphabet(self):
        """union of all character sets a matched character can come from"""
        out = [EMPTY]

        def walk(t):
            for op, av in t:
                op = str(op)
                if op == 'LITERAL':
                    out[0] = out[0].union(self.lit_set(av))
                elif op == 'NOT_LITERAL':
                    out[0] = out[0].union(self.lit_set(av).compl())
                elif op == 'IN':
                    out[0] = out[0].union(self.cls_set(av))
                elif op == 'ANY':
                    out[0] = out[0].union(ISet([(10, 10)]).compl())
                elif op in ('MAX_REPEAT', 'MIN_REPEAT'):
                    walk(av[2])
                elif op == 'SUBPATTERN':
                    walk(av[3])
                elif op == 'BRANCH':
                    for b in av[1]:
                        walk(b)
                elif op == 'AT':
                    pass
                else:
                    raise Unsupported('regex op on long string ' + op)
        walk(list(self.tree))
        return out[0]
