"""Independent transcriptions of the published rules of the international identifiers of C07 (spec functions).

Each spec takes the *compact* string (the library's own normalisation is the shared input contract: which separators
are ignored is not part of the standards) and returns the canonical form or raises Reject.  They are written from the
standards' own formulation (weights "from the right", "including the check character", character tests on ASCII),
deliberately not in the shape of the library code, and use no library function except the registry tables / country
lists the property names as shared inputs and the ISO 7064 algorithms (verified on their own by C06).
They are executed symbolically by the same engine as the code, on the same unknown input.
"""


class Reject(Exception):
    pass


def _isdigit(ch):
    return '0' <= ch <= '9'


def _isupper(ch):
    return 'A' <= ch <= 'Z'


def _alldigits(s):
    return all('0' <= ch <= '9' for ch in s)


def _allalnum(s):
    return all(('0' <= ch <= '9') or ('A' <= ch <= 'Z') for ch in s)


def _dv(ch):
    """value of an ASCII digit"""
    return ord(ch) - 48


def _av(ch):
    """0-9 -> 0..9, A-Z -> 10..35 (ISO 7064 / ISO 13616 letter expansion)"""
    return ord(ch) - 48 if '0' <= ch <= '9' else ord(ch) - 55


# ------------------------------------------------------------------ GS1: EAN / GTIN (General Specifications 7.9)
def _gs1_ok(s):
    """all digits; multiply alternately by 3 and 1 starting with 3 at the digit left of the check digit; the sum plus
    the check digit is a multiple of ten"""
    total = 0
    n = len(s)
    for k in range(n):
        d = _dv(s[n - 1 - k])
        if k == 0:
            total = total + d
        elif k % 2 == 1:
            total = total + 3 * d
        else:
            total = total + d
    return total % 10 == 0


def ean(c):
    if len(c) not in (8, 12, 13, 14):
        raise Reject()
    if not _alldigits(c):
        raise Reject()
    if not _gs1_ok(c):
        raise Reject()
    return c


# ------------------------------------------------------------------ ISO 2108 ISBN
def isbn(c):
    if len(c) == 9:
        # Standard Book Number: nine digits, an ISBN-10 with a leading zero
        c10 = '0' + c
    else:
        c10 = c
    if len(c10) == 10:
        if not _alldigits(c10[:9]):
            raise Reject()
        last = c10[9]
        if not (_isdigit(last) or last == 'X'):
            raise Reject()
        total = 0
        for i in range(9):
            total = total + (10 - i) * _dv(c10[i])
        total = total + (10 if last == 'X' else _dv(last))
        if total % 11 != 0:
            raise Reject()
        return c10
    if len(c) == 13:
        if not _alldigits(c):
            raise Reject()
        if c[:3] != '978' and c[:3] != '979':
            raise Reject()
        if not _gs1_ok(c):
            raise Reject()
        return c
    raise Reject()


# ------------------------------------------------------------------ ISO 3297 ISSN
def issn(c):
    if len(c) != 8:
        raise Reject()
    if not _alldigits(c[:7]):
        raise Reject()
    last = c[7]
    if not (_isdigit(last) or last == 'X'):
        raise Reject()
    total = 0
    for i in range(7):
        total = total + (8 - i) * _dv(c[i])
    total = total + (10 if last == 'X' else _dv(last))
    if total % 11 != 0:
        raise Reject()
    return c


# ------------------------------------------------------------------ ISO 10957 ISMN
def ismn(c):
    if len(c) == 10:
        if c[0] != 'M':
            raise Reject()
        body = '9790' + c[1:]
    elif len(c) == 13:
        if c[:4] != '9790':
            raise Reject()
        body = c
    else:
        raise Reject()
    if not _alldigits(body):
        raise Reject()
    if not _gs1_ok(body):
        raise Reject()
    return c


# ------------------------------------------------------------------ Luhn formula (ISO/IEC 7812-1 annex B)
def _luhn_ok(digits):
    """digits: list of ints, check digit last; double every second digit from the right starting left of the check"""
    total = 0
    n = len(digits)
    for k in range(n):
        d = digits[n - 1 - k]
        if k % 2 == 1:
            d = 2 * d
            if d > 9:
                d = d - 9
        total = total + d
    return total % 10 == 0


# ------------------------------------------------------------------ ISO 6166 ISIN
def isin(c, countries):
    if len(c) != 12:
        raise Reject()
    if not _allalnum(c):
        raise Reject()
    if c[:2] not in countries:
        raise Reject()
    if not _isdigit(c[11]):
        raise Reject()
    digits = []
    for ch in c:
        v = _av(ch)
        if v >= 10:
            digits.append(v // 10)
            digits.append(v % 10)
        else:
            digits.append(v)
    if not _luhn_ok(digits):
        raise Reject()
    return c


# ------------------------------------------------------------------ IMEI (3GPP TS 23.003)
def imei(c):
    if len(c) < 14 or len(c) > 16:
        raise Reject()
    if not _alldigits(c):
        raise Reject()
    if len(c) == 15:
        if not _luhn_ok([_dv(ch) for ch in c]):
            raise Reject()
        return c
    if len(c) == 14 or len(c) == 16:
        return c
    raise Reject()


# ------------------------------------------------------------------ ISO 13616 IBAN (generic rules)
def iban(c, structure, mod97):
    """structure(country) -> list of (count, kind) from the registry or None; mod97(s) -> ISO 7064 Mod 97-10 residue"""
    if len(c) < 5:
        raise Reject()
    cc = c[:2]
    if not (_isupper(cc[0]) and _isupper(cc[1])):
        raise Reject()
    st = structure(cc)
    if st is None:
        raise Reject()
    if not (_isdigit(c[2]) and _isdigit(c[3])):
        raise Reject()
    total = 4
    for count, kind in st:
        total = total + count
    if len(c) != total:
        raise Reject()
    pos = 4
    for count, kind in st:
        part = c[pos:pos + count]
        if kind == 'n':
            if not _alldigits(part):
                raise Reject()
        elif kind == 'a':
            if not all('A' <= ch <= 'Z' for ch in part):
                raise Reject()
        else:
            if not _allalnum(part):
                raise Reject()
        pos = pos + count
    if mod97(c[4:] + c[:4]) != 1:
        raise Reject()
    return c


# ------------------------------------------------------------------ ISO 11649 creditor reference
def iso11649(c, mod97):
    if len(c) < 5 or len(c) > 25:
        raise Reject()
    if c[:2] != 'RF':
        raise Reject()
    if not (_isdigit(c[2]) and _isdigit(c[3])):
        raise Reject()
    if not _allalnum(c[4:]):
        raise Reject()
    if mod97(c[4:] + c[:4]) != 1:
        raise Reject()
    return c


# ------------------------------------------------------------------ ISO 17442 LEI
def lei(c, mod97):
    if len(c) != 20:
        raise Reject()
    if not _allalnum(c[:18]):
        raise Reject()
    if not (_isdigit(c[18]) and _isdigit(c[19])):
        raise Reject()
    if mod97(c) != 1:
        raise Reject()
    return c


# ------------------------------------------------------------------ ISO 27729 ISNI
def isni(c):
    if len(c) != 16:
        raise Reject()
    if not _alldigits(c[:15]):
        raise Reject()
    last = c[15]
    if not (_isdigit(last) or last == 'X'):
        raise Reject()
    # ISO 7064 MOD 11-2: sum of a_i * 2^(n-i) over all characters including the check is 1 mod 11
    total = 0
    for i in range(16):
        v = 10 if c[i] == 'X' else _dv(c[i])
        total = total + v * (2 ** (15 - i))
    if total % 11 != 1:
        raise Reject()
    return c


# ------------------------------------------------------------------ GRid (IFPI Global Release Identifier)
def grid(c, mod3736_ok):
    # optionally written with the prefix "GRID:"
    if c[:5] == 'GRID:':
        c = c[5:]
    if len(c) != 18:
        raise Reject()
    if not _allalnum(c):
        raise Reject()
    if not mod3736_ok(c):
        raise Reject()
    return c


# ------------------------------------------------------------------ CUSIP (ANSI X9.6) "modulus 10 double-add-double"
def cusip(c):
    if len(c) != 9:
        raise Reject()
    total = 0
    for i in range(8):
        # 0-9 -> 0..9, A-Z -> 10..35, * -> 36, @ -> 37, # -> 38
        v = '0123456789ABCDEFGHIJKLMNOPQRSTUVWXYZ*@#'.find(c[i])
        if v < 0:
            raise Reject()
        if i % 2 == 1:
            v = v * 2
        total = total + v // 10 + v % 10
    if not _isdigit(c[8]):
        raise Reject()
    if (10 - total % 10) % 10 != _dv(c[8]):
        raise Reject()
    return c


# ------------------------------------------------------------------ SEDOL (London Stock Exchange)
def sedol(c):
    if len(c) != 7:
        raise Reject()
    weights = [1, 3, 1, 7, 3, 9, 1]
    total = 0
    for i in range(7):
        ch = c[i]
        if not (('0' <= ch <= '9') or ('A' <= ch <= 'Z')) or ch in 'AEIOU':
            raise Reject()
        total = total + weights[i] * _av(ch)
    if not _isdigit(c[6]):
        raise Reject()
    if _isdigit(c[0]) and not _alldigits(c):
        # old style codes are purely numeric, new style ones start with a letter
        raise Reject()
    if total % 10 != 0:
        raise Reject()
    return c


# ------------------------------------------------------------------ FIGI (OMG Financial Instrument Global Identifier)
def figi(c):
    if len(c) != 12:
        raise Reject()
    if not _allalnum(c):
        raise Reject()
    if not all(ch not in 'AEIOU' for ch in c):
        raise Reject()
    if _isdigit(c[0]) or _isdigit(c[1]):
        raise Reject()
    if c[:2] in ('BS', 'BM', 'GG', 'GB', 'GH', 'KY', 'VG'):
        raise Reject()
    if c[2] != 'G':
        raise Reject()
    if not _isdigit(c[11]):
        raise Reject()
    total = 0
    for i in range(11):
        v = _av(c[i])
        if i % 2 == 1:
            v = v * 2
        total = total + v // 10 + v % 10
    if (total + _dv(c[11])) % 10 != 0:
        raise Reject()
    return c


# ------------------------------------------------------------------ IMO ship identification number
def imo(c):
    # written "IMO" followed by seven digits; the prefix may be left out
    if c[:3] == 'IMO':
        c = c[3:]
    if len(c) != 7 or not _alldigits(c):
        raise Reject()
    total = 0
    for i in range(6):
        total = total + _dv(c[i]) * (7 - i)
    if total % 10 != _dv(c[6]):
        raise Reject()
    return c


# ------------------------------------------------------------------ CAS Registry Number
def casrn(c):
    # xxxxxxx-yy-z: two to seven digits (no leading zero), hyphen, two digits, hyphen, check digit
    n = len(c)
    if n < 7 or n > 12:
        raise Reject()
    if c[n - 2] != '-' or c[n - 5] != '-':
        raise Reject()
    a = c[:n - 5]
    b = c[n - 4:n - 2]
    z = c[n - 1]
    if not (_alldigits(a) and _alldigits(b) and _isdigit(z)):
        raise Reject()
    if a[0] == '0':
        raise Reject()
    body = a + b
    total = 0
    k = len(body)
    for i in range(k):
        total = total + (i + 1) * _dv(body[k - 1 - i])
    if total % 10 != _dv(z):
        raise Reject()
    return c


# ------------------------------------------------------------------ ISO 9362 BIC
def bic(c):
    if len(c) != 8 and len(c) != 11:
        raise Reject()
    if not all('A' <= ch <= 'Z' for ch in c[:6]):
        raise Reject()
    if not _allalnum(c[6:]):
        raise Reject()
    return c


# ------------------------------------------------------------------ ISO 3901 ISRC
def isrc(c, countries):
    if len(c) != 12:
        raise Reject()
    if not (_isupper(c[0]) and _isupper(c[1])):
        raise Reject()
    if not _allalnum(c[2:5]):
        raise Reject()
    if not _alldigits(c[5:]):
        raise Reject()
    if c[:2] not in countries:
        raise Reject()
    return c
