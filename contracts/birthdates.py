"""Which digits of a number designate the birth date (C12: "a returned birth date agrees with the digits of the number").

Written from the public descriptions of the formats (not from the getters): slices of the canonical number for the
two-digit year, the month and the day, how month/day offsets are removed, and - where the format encodes it in the
month - the century.  Only formats whose layout is unambiguous are listed; the others are checked for totality and
agreement with get_birth_year/get_birth_month only.
"""

# module: (yy slice, mm slice, dd slice, month reduction, day reduction, century rule or None)
#   month reduction / day reduction: function names interpreted by the check ('id', 'mod20', 'mod50mod20', 'mod40')
#   century rule: 'pesel' = 1900 + 100*(mm // 20) for mm // 20 in 0..3, 1800 for 4
RULES = {
    'stdnum.pl.pesel': ((0, 2), (2, 4), (4, 6), 'mod20', 'id', 'pesel'),
    'stdnum.bg.egn': ((0, 2), (2, 4), (4, 6), 'mod20', 'id', 'egn'),
    'stdnum.cz.rc': ((0, 2), (2, 4), (4, 6), 'mod50mod20', 'id', None),
    'stdnum.dk.cpr': ((4, 6), (2, 4), (0, 2), 'id', 'id', None),
    'stdnum.ee.ik': ((1, 3), (3, 5), (5, 7), 'id', 'id', None),
    'stdnum.lt.asmens': ((1, 3), (3, 5), (5, 7), 'id', 'id', None),
    'stdnum.ro.cnp': ((1, 3), (3, 5), (5, 7), 'id', 'id', None),
    'stdnum.za.idnr': ((0, 2), (2, 4), (4, 6), 'id', 'id', None),
    'stdnum.kr.rrn': ((0, 2), (2, 4), (4, 6), 'id', 'id', None),
    'stdnum.no.fodselsnummer': ((4, 6), (2, 4), (0, 2), 'mod40', 'mod40', None),
    'stdnum.cu.ni': ((0, 2), (2, 4), (4, 6), 'id', 'id', None),
    'stdnum.gr.amka': ((4, 6), (2, 4), (0, 2), 'id', 'id', None),
    'stdnum.id.nik': ((10, 12), (8, 10), (6, 8), 'id', 'mod40', None),
    'stdnum.lv.pvn': ((4, 6), (2, 4), (0, 2), 'id', 'id', None),
    'stdnum.mx.curp': ((4, 6), (6, 8), (8, 10), 'id', 'id', None),
    'stdnum.my.nric': ((0, 2), (2, 4), (4, 6), 'id', 'id', None),
    'stdnum.cn.ric': ((6, 10), (10, 12), (12, 14), 'id', 'id', None),       # four-digit year
    'stdnum.si.emso': ((4, 7), (2, 4), (0, 2), 'id', 'id', None),           # three-digit year
}
