"""Which digits of a number designate the birth date (C12: "a returned birth date agrees with the digits of the number").

Written from the public descriptions of the formats (not from the getters): slices of the canonical number for the
two-digit year, the month and the day, how month/day offsets are removed, and - where the format encodes it in the
month - the century.  Only formats whose layout is unambiguous are listed; the others are checked for totality and
agreement with get_birth_year/get_birth_month only.
"""

# module: (yy slice, mm slice, dd slice, month reduction, day reduction, century rule or None)
#   month reduction / day reduction: function names interpreted by the check ('id', 'mod20', 'mod50mod20', 'mod40')
#   century rule: 'pesel' = 1900 + 100*(mm // 20) for mm // 20 in 0..3, 1800 for 4; 'egn' = +20 -> 18xx, +40 -> 20xx;
#   a dict(at=index, map={marker character: century}) = the century is designated by one character of the number (markers that
#   are not listed designate no century: nothing is required for them); 'emso' = three-digit year, below 800 -> 2yyy, else 1yyy;
#   'cpr' = Danish rule on the 7th digit c and yy: c 0-3 -> 19; c 4 or 9 -> 20 if yy <= 36 else 19; c 5-8 -> 20 if yy <= 57 else 18;
#   'fnr' = Norwegian rule on the individual number iii (digits 7-9) and yy: iii < 500 -> 19; 500-749 and yy >= 54 -> 18;
#   900-999 and yy >= 40 -> 19; 500-999 and yy < 40 -> 20 (other combinations designate no century)
_D = lambda **kw: kw      # noqa: E731
RULES = {
    'stdnum.pl.pesel': ((0, 2), (2, 4), (4, 6), 'mod20', 'id', 'pesel'),
    'stdnum.bg.egn': ((0, 2), (2, 4), (4, 6), 'mod20', 'id', 'egn'),
    'stdnum.cz.rc': ((0, 2), (2, 4), (4, 6), 'mod50mod20', 'id', None),
    'stdnum.dk.cpr': ((4, 6), (2, 4), (0, 2), 'id', 'id', 'cpr'),
    'stdnum.ee.ik': ((1, 3), (3, 5), (5, 7), 'id', 'id', _D(at=0, map={'1': 1800, '2': 1800, '3': 1900, '4': 1900, '5': 2000, '6': 2000, '7': 2100, '8': 2100})),
    'stdnum.lt.asmens': ((1, 3), (3, 5), (5, 7), 'id', 'id', _D(at=0, map={'1': 1800, '2': 1800, '3': 1900, '4': 1900, '5': 2000, '6': 2000})),
    'stdnum.ro.cnp': ((1, 3), (3, 5), (5, 7), 'id', 'id', _D(at=0, map={'1': 1900, '2': 1900, '3': 1800, '4': 1800, '5': 2000, '6': 2000})),
    'stdnum.za.idnr': ((0, 2), (2, 4), (4, 6), 'id', 'id', None),
    'stdnum.kr.rrn': ((0, 2), (2, 4), (4, 6), 'id', 'id', _D(at=6, map={'1': 1900, '2': 1900, '5': 1900, '6': 1900, '3': 2000, '4': 2000, '7': 2000, '8': 2000, '9': 1800, '0': 1800})),
    'stdnum.no.fodselsnummer': ((4, 6), (2, 4), (0, 2), 'mod40', 'mod40', 'fnr'),
    'stdnum.cu.ni': ((0, 2), (2, 4), (4, 6), 'id', 'id', _D(at=6, map={'9': 1800, '0': 1900, '1': 1900, '2': 1900, '3': 1900, '4': 1900, '5': 1900, '6': 2000, '7': 2000, '8': 2000})),
    'stdnum.gr.amka': ((4, 6), (2, 4), (0, 2), 'id', 'id', None),
    'stdnum.id.nik': ((10, 12), (8, 10), (6, 8), 'id', 'mod40', None),
    'stdnum.lv.pvn': ((4, 6), (2, 4), (0, 2), 'id', 'id', _D(at=6, map={'0': 1800, '1': 1900, '2': 2000})),
    'stdnum.mx.curp': ((4, 6), (6, 8), (8, 10), 'id', 'id', _D(at=16, map=dict([(c, 1900) for c in '0123456789'] + [(c, 2000) for c in 'ABCDEFGHIJKLMNOPQRSTUVWXYZ']))),
    'stdnum.my.nric': ((0, 2), (2, 4), (4, 6), 'id', 'id', None),
    'stdnum.cn.ric': ((6, 10), (10, 12), (12, 14), 'id', 'id', None),       # four-digit year
    'stdnum.si.emso': ((4, 7), (2, 4), (0, 2), 'id', 'id', 'emso'),         # three-digit year
}
