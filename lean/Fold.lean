/-
Induction schemas for the generic check-digit algorithms (C06, C17).
Parametric in `step`; the hypotheses are exactly the finite lemmas that z3 discharges for the step function
extracted from the real loop body.  No Mathlib.  Checked by `lean lean/Fold.lean` on every C06/C17 run.
-/
namespace Fold
variable {S S' A : Type}

theorem foldl_inj_state (step : S → A → S)
    (hL : ∀ s s' a, s ≠ s' → step s a ≠ step s' a) :
    ∀ (w : List A) (s s' : S), s ≠ s' → w.foldl step s ≠ w.foldl step s' := by
  intro w
  induction w with
  | nil => intro s s' h; simpa using h
  | cons a w ih => intro s s' h; simp only [List.foldl_cons]; exact ih _ _ (hL s s' a h)

theorem subst_detected (step : S → A → S) (R : A → A → Prop) (s0 : S)
    (hL : ∀ s s' a, s ≠ s' → step s a ≠ step s' a)
    (hR : ∀ s a b, R a b → a ≠ b → step s a ≠ step s b)
    (u w : List A) (a b : A) (hk : R a b) (hab : a ≠ b) :
    (u ++ a :: w).foldl step s0 ≠ (u ++ b :: w).foldl step s0 := by
  simp only [List.foldl_append, List.foldl_cons]
  exact foldl_inj_state step hL w _ _ (hR _ a b hk hab)

theorem transp_detected (step : S → A → S) (R : A → A → Prop) (s0 : S)
    (hL : ∀ s s' a, s ≠ s' → step s a ≠ step s' a)
    (hT : ∀ s a b, R a b → a ≠ b → step (step s a) b ≠ step (step s b) a)
    (u w : List A) (a b : A) (hk : R a b) (hab : a ≠ b) :
    (u ++ a :: b :: w).foldl step s0 ≠ (u ++ b :: a :: w).foldl step s0 := by
  simp only [List.foldl_append, List.foldl_cons]
  exact foldl_inj_state step hL w _ _ (hT _ a b hk hab)

theorem check_unique (step : S → A → S) (s0 good : S) (ck : S → A)
    (hC : ∀ s, step s (ck s) = good)
    (hR : ∀ s a b, a ≠ b → step s a ≠ step s b) (u : List A) :
    (u ++ [ck (u.foldl step s0)]).foldl step s0 = good ∧
    ∀ c, (u ++ [c]).foldl step s0 = good → c = ck (u.foldl step s0) := by
  constructor
  · simp [List.foldl_append, hC]
  · intro c h
    simp only [List.foldl_append, List.foldl_cons, List.foldl_nil] at h
    apply Classical.byContradiction
    intro hne
    exact hR _ _ _ hne (h.trans (hC _).symm)

theorem simulation (step : S → A → S) (step' : S' → A → S') (α : S → S')
    (h : ∀ s a, α (step s a) = step' (α s) a) :
    ∀ (w : List A) (s : S), α (w.foldl step s) = w.foldl step' (α s) := by
  intro w
  induction w with
  | nil => intro s; rfl
  | cons a w ih => intro s; simp only [List.foldl_cons]; rw [ih, h]

theorem subst_detected_rev (step : S → A → S) (R : A → A → Prop) (s0 : S)
    (hL : ∀ s s' a, s ≠ s' → step s a ≠ step s' a)
    (hR : ∀ s a b, R a b → a ≠ b → step s a ≠ step s b)
    (u w : List A) (a b : A) (hk : R a b) (hab : a ≠ b) :
    (u ++ a :: w).reverse.foldl step s0 ≠ (u ++ b :: w).reverse.foldl step s0 := by
  have e : ∀ x : A, (u ++ x :: w).reverse = w.reverse ++ x :: u.reverse := by
    intro x; simp [List.reverse_append, List.reverse_cons, List.append_assoc]
  rw [e a, e b]
  exact subst_detected step R s0 hL hR _ _ a b hk hab

theorem transp_detected_rev (step : S → A → S) (R : A → A → Prop) (s0 : S)
    (hL : ∀ s s' a, s ≠ s' → step s a ≠ step s' a)
    (hT : ∀ s a b, R a b → a ≠ b → step (step s a) b ≠ step (step s b) a)
    (hS : ∀ a b, R a b → R b a)
    (u w : List A) (a b : A) (hk : R a b) (hab : a ≠ b) :
    (u ++ a :: b :: w).reverse.foldl step s0 ≠ (u ++ b :: a :: w).reverse.foldl step s0 := by
  have e : ∀ x y : A, (u ++ x :: y :: w).reverse = w.reverse ++ y :: x :: u.reverse := by
    intro x y; simp [List.reverse_append, List.reverse_cons, List.append_assoc]
  rw [e a b, e b a]
  exact transp_detected step R s0 hL hT _ _ b a (hS _ _ hk) (Ne.symm hab)

/-- Folds from the right end (Luhn, Verhoeff): the check symbol `c` is folded first.  If some action `act c` on
states commutes with every step (`hAct`, from associativity / additivity of the table, proved by z3) then the fold
of `c :: w` is `act c` applied to the fold of `z :: w` for the neutral symbol `z`; existence and uniqueness of the
completing symbol follow from the finite lemmas `hGood` and `hUniq` on final states. -/
theorem rev_check (step : S → A → S) (s0 good : S) (z : A) (act : A → S → S) (ck : S → A)
    (hFirst : ∀ c, step s0 c = act c (step s0 z))
    (hAct : ∀ c s a, act c (step s a) = step (act c s) a)
    (hGood : ∀ t, act (ck t) t = good)
    (hUniq : ∀ t c c', act c t = act c' t → c = c')
    (w : List A) :
    (ck ((z :: w).foldl step s0) :: w).foldl step s0 = good ∧
    ∀ c, (c :: w).foldl step s0 = good → c = ck ((z :: w).foldl step s0) := by
  have shift : ∀ c, (c :: w).foldl step s0 = act c ((z :: w).foldl step s0) := by
    intro c
    simp only [List.foldl_cons]
    rw [hFirst c]
    exact (simulation step step (act c) (hAct c) w (step s0 z)).symm
  constructor
  · rw [shift]; exact hGood _
  · intro c h
    rw [shift] at h
    exact hUniq _ _ _ (h.trans (hGood _).symm)

end Fold
