#!/bin/bash
# development helper: all thorough commands in sequence, one log per check under $1 (default /tmp/thorough)
L=${1:-/tmp/thorough}; shift
mkdir -p $L
cd "$(dirname "$0")"
for c in ${@:-C06 C03 C09 C10 C11 C13 C14 C16 C18 C05 C12 C04 C17 C08 C07 C01 C02 C15}; do
  echo "=== $c $(date +%T)" >> $L/seq.log
  ./check $c --tier thorough > $L/$c.log 2>&1
  echo "exit $? $(date +%T)" >> $L/seq.log
  grep "^$c thorough\|^VIOLATION\|^CHECKER-ERROR" $L/$c.log >> $L/seq.log
done
echo ALLDONE >> $L/seq.log
