#!/usr/bin/env python3
"""Development-only: prints candidate known-finding entries from the newest sweep cache (a human decides and commits).
Usage: ./triage.py > candidates.json"""
import glob
import json
import os
import sys

d = sorted(glob.glob(os.path.join(os.path.dirname(os.path.abspath(__file__)), '.cache', 'sweep', '*')), key=os.path.getmtime)[-1]
out = []
for p in sorted(glob.glob(d + '/*.json')):
    r = json.load(open(p))
    for f in r.get('findings', []):
        if not f.get('reproduced'):
            continue
        out.append(dict(property=f['property'], module=r['module'], kind=f['kind'], key=f['key'], status='known',
                        what='%s: %s' % (f['kind'], f['key']),
                        witness=dict(input=f.get('input'), opts=f.get('opts') or {}, today=f.get('today')),
                        observed=f.get('real')))
json.dump(dict(findings=out), sys.stdout, indent=1, ensure_ascii=True)
