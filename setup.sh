#!/bin/bash
# Build the check interpreter: a Python 3.12 venv (same CPython / Unicode tables as /venv, which runs the repo)
# with z3-solver, cvc5 and jsonschema from the offline wheelhouse.  Untracked; safe to re-run.
set -e
cd "$(dirname "$0")"
export PIP_NO_INDEX=1 PIP_DISABLE_PIP_VERSION_CHECK=1
if [ -x .venv/bin/python ] && .venv/bin/python -c 'import z3, cvc5, jsonschema' 2>/dev/null; then
  echo "setup: .venv already usable"; exit 0
fi
BASE=$(/venv/bin/python -c 'import sys; print(sys.base_prefix)')
PY="$BASE/bin/python3.12"
[ -x "$PY" ] || PY=/venv/bin/python
rm -rf .venv
"$PY" -m venv .venv
.venv/bin/pip install -q --no-index --find-links /opt/veriftools/wheels z3-solver cvc5 jsonschema
.venv/bin/python -c 'import z3, cvc5, jsonschema, sys, unicodedata; print("setup ok: python", sys.version.split()[0], "unicode", unicodedata.unidata_version, "z3", z3.get_version_string())'
