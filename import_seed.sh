#!/bin/bash
# usage: import_seed.sh <worktree out dir> <A|B> <seeded id>   copies a sub-agent's change into /verif/seeded/<id>
O=$1; L=$2; ID=$3
mkdir -p seeded/$ID
cp $O/$L.diff seeded/$ID/patch.diff
cp $O/${L}_demo.py seeded/$ID/demo.py
echo "imported $ID: $(grep '^+++' seeded/$ID/patch.diff | tr '\n' ' ')"
