#!/bin/bash
# usage: mutant_test.sh <diff> <demo.py> <check id> [modules...]   -> confirms the change (tests pass, demo fails with / passes without) and runs a check on it
# works on a scratch copy of /repo outside /repo and /verif, removed afterwards
DIFF=$1; DEMO=$2; PROP=$3; shift 3
D=$(mktemp -d /tmp/mut.XXXXXX)
rsync -a --exclude .git --exclude coverage /repo/ $D/repo/
cd $D/repo
echo "--- demo without the change:"; /venv/bin/python $DEMO >/dev/null 2>&1; echo "exit $?"
patch -p1 -s < $DIFF || { echo "PATCH FAILED"; rm -rf $D; exit 3; }
echo "--- demo with the change:"; /venv/bin/python $DEMO >/dev/null 2>&1; echo "exit $?"
if [ -z "$SKIPTESTS" ]; then echo "--- test suite with the change:"; /venv/bin/python -m pytest -q -p no:cacheprovider --timeout=900 -x 2>&1 | tail -1; fi
echo "--- check $PROP $@ on the changed tree:"
cd /verif && VERIF_REPO=$D/repo VERIF_NO_CACHE=1 ./check $PROP "$@" 2>&1 | grep -v "^  \|KNOWN-FINDING" | tail -6 | cut -c1-260
rm -rf $D
