#!/usr/bin/env python3
"""Development-only: candidate known-finding entries from the replay files of the last run of a property."""
import glob, json, os, sys
prop = sys.argv[1]
out = []
for p in sorted(glob.glob(os.path.join(os.path.dirname(os.path.abspath(__file__)), 'replays', prop, '*.json'))):
    d = json.load(open(p))
    if 'no failing input' in d.get('note', ''):
        continue
    w = {k: d.get(k) for k in ('input', 'opts', 'fopts', 'today', 'variant', 'altered', 'alphabet', 'registry', 'deletechars', 'getter', 'query', 'separator', 'parentheses', 'fmt', 'type', 'history', 'line', 'encoded', 'conv') if d.get(k) is not None}
    out.append(dict(property=prop, module=d['module'], kind=d.get('kind') or d['what'].split(':')[0], key=d['key'], status='known',
                    what=d['what'], witness=w, observed=d.get('real')))
json.dump(out, sys.stdout, indent=1, ensure_ascii=True)
