#!/usr/bin/env python3
"""Regenerates MANIFEST.json from the table below (kept in one place so that it is always valid)."""
import json

CHECKS = {
    'C14': dict(
        category='proof', design_ref='DESIGN.md §C14',
        text='Per-code-point clauses of the clean-up table are evaluated exhaustively over all 1,114,112 code points; clean()/_clean_chars() '
             'are brought into comprehension normal form from their real ASTs and the per-element lemmas (no deleted character survives, '
             'idempotence, ASCII alphanumerics fixed, exactness of the clean() contract) are discharged by z3 for one symbolic character and an '
             'uninterpreted delete set, which the monoid-homomorphism rule lifts to every string and every delete set.',
        note='Trusted: unicodedata of CPython 3.12.1, the homomorphism rule for join-comprehensions, z3. A random differential run of clean() '
             'is a bounded stand-in and is not counted as discharged. The module-level sentence rests on C03.',
        technique='exhaustive evaluation of table clauses + z3 per-element VCs from the real comprehension bodies'),
}
CHECKS['C06'] = dict(
    category='proof', design_ref='DESIGN.md §C06',
    text='For Luhn (every even alphabet size 2..40), Verhoeff, Damm and the five ISO 7064 systems the step function is extracted from the real '
         'checksum() source (loop body, parity-sum or Horner normal form); z3 discharges the finite lemmas over symbolic state, position and '
         'symbols (range/no failing lookup, left and right injectivity, adjacent transposition, completion, exact Luhn failure set, Mod 97-10 '
         'simulation and two-digit completion); Lean 4 (lean/Fold.lean, compiled on every run) lifts them to strings of every length.',
    note='Trusted: the glue "for-loop over a sequence == List.foldl of its body", mathematical integers, z3, Lean kernel. The extracted step is '
         'cross-checked against symbolic execution of the whole real checksum() for lengths 0..4; the state set is the exact closure of the '
         'extracted step; a bounded native net (all strings up to length 2..5 through the real functions) stands next to the lemmas.',
    technique='step-function extraction from the real AST + z3 finite lemmas + Lean 4 induction schemas')
CHECKS['C10'] = dict(
    category='proof', design_ref='DESIGN.md §C10',
    text='The real AST of NumDB._find is evaluated over z3 strings and two uninterpreted monoids; an inductive loop invariant over an arbitrary '
         'entry index and the function contract (measure len(number)) give: result == declarative spec, parts concatenate to the number, the '
         'recursion terminates - for any prefix tree and any number. info()/split() are checked as thin wrappers.',
    note='read()/_parse() (generator, aliasing heap) are outside the verified subset: a bounded differential against an independent reader on the '
         '17 shipped files and generated files stands in, labelled bounded and not counted as discharged. Refutations are lifted to a concrete '
         '(registry, number) pair by bounded search and replayed on the real _find.',
    technique='loop-invariant VCs generated from the real AST, z3 (sequences + uninterpreted monoids)')
_VF_NOTE = ('Trusted: the encoding of Python semantics in pyvc (int() grammar, Unicode classes, regex shapes, case mapping) generated from the '
            'running CPython 3.12; contracts of clean() (proved by C14), NumDB lookup (C10) and Mod 97-10 (C06). Strings longer than 40 characters are '
            'covered by the LongStr abstraction; units that hit the path/time budget or leave the subset are reported undecided and are not '
            'counted as discharged. Refutations are replayed on the real validate(); listed known findings print KNOWN-FINDING.')
CHECKS['C01'] = dict(
    category='proof', design_ref='DESIGN.md §C01',
    text='Every path of validate() of every discoverable module is enumerated symbolically for every input length 0..40 and for the unbounded '
         'tail, for every option valuation: each partial operation (int(), index(), subscripts, dict look-ups, date(), unpacking ...) is a '
         'precondition whose failing branch must be infeasible or end in a ValidationError; returned values must be non-empty strings.',
    note=_VF_NOTE, technique='symbolic execution of the real ASTs with builtin contracts; interval domain + z3; replay of models')
CHECKS['C02'] = dict(
    category='proof', design_ref='DESIGN.md §C02',
    text='On every accepting path of validate() the returned value is re-validated symbolically under the path condition: every path of the '
         'second run must return the same string, and the first and last character cannot be white space.',
    note=_VF_NOTE, technique='nested symbolic execution under the accepting path condition, z3 entailment')
CHECKS['C15'] = dict(
    category='proof', design_ref='DESIGN.md §C15',
    text='On every accepting path of validate() of every identifier module the path condition must entail that all returned characters are '
         'ASCII (or one of the national letters the property allows); the builtin contracts are Unicode-faithful, so gates based on \\d, '
         'str.isalpha, int() leave non-ASCII characters satisfiable and are reported with a replayed witness.',
    note=_VF_NOTE, technique='symbolic execution, Unicode class tables from the running interpreter, z3')
CHECKS['C03'] = dict(
    category='proof', design_ref='DESIGN.md §C03',
    text='Dependency contract: in validate() of each of the 217 modules with compact() the raw argument flows only into the module\'s own '
         'compact() or into functions whose normalisation chain (computed by symbolic execution of their compact) absorbs it. Decided on the '
         'AST with alias resolution; modules where this is not syntactic are undecided and covered by a bounded differential on decorated '
         'corpus numbers, labelled bounded.',
    note='Trusted: C14 (clean is map-then-delete) and determinism of callees (C13). Excluded by the property: ISAN, MEID, US SSN/ITIN/EIN/ATIN/TIN.',
    technique='data-flow (frame) obligation on the real AST + normalisation chains from symbolic execution')
CHECKS['C04'] = dict(
    category='proof', design_ref='DESIGN.md §C04',
    text='On every accepting path of validate() (input x, value v) the real format() is executed symbolically on x and on v and validate() on '
         'format(x), all under the path condition; the obligations are format(x) == format(v), validate(format(x)) == v and that none of them '
         'raises. Refutations are replayed on the real functions.',
    note='The four documented normalisations (ISMN, ISAN, ISIL, MEID) and options that change the number (isbn convert, imei add_check_digit) are '
         'checked on the corpus only (bounded, not counted). Lengths whose accepting paths leave the subset are undecided. ' + _VF_NOTE,
    technique='closure of format()/validate() executed symbolically under each accepting path condition, z3 entailment')
CHECKS['C09'] = dict(
    category='other', design_ref='DESIGN.md §C09',
    text='Union wrappers (US TIN, Thai TIN, Belgian SSN, Spanish NIF) are verified by relational symbolic execution: wrapper and all constituent '
         'validate() run on one unknown input in one path context, per input length, with the obligation accepts(W) <=> OR accepts(M_i). '
         'Thin wrappers (no.mva, se.vat, ch.vat, fi.ytunnus, sk.rc, mc.tva) the same way: wrapper accepts v => constituent accepts the embedded part, '
         'and conversely. Dispatch tables of EU VAT / VATIN / IBAN are evaluated on their complete finite key domains against what '
         'stdnum/<cc>/__init__.py binds. Level other because the EU VAT / VATIN / IBAN result equalities are a bounded differential, not a proof.',
    note='Relational runs cover normalised input lengths 0..16 (quick) / 0..24 (thorough); us.tin normalises the input in two incompatible ways and '
         'is undecided (bounded stand-in only).',
    technique='relational symbolic execution + exhaustive table evaluation + bounded differential')
CHECKS['C11'] = dict(
    category='other', design_ref='DESIGN.md §C11',
    text='A closed predicate over the finite shipped data, evaluated exhaustively: strict line grammar, equal-length ordered endpoints, indentation '
         'discipline, reachability of every entry through the real NumDB.info, and consumer witnesses (IBAN account accepted per country, GS1 AI '
         'round trip, ISBN five parts, CFI attribute names).',
    note='Evaluation, not SMT proof. Top levels with more than 3000 entries (OUI) are decided analytically for every entry and through the real '
         'linear lookup for every k-th entry in the quick tier (all in thorough).',
    technique='exhaustive evaluation of a data invariant through the real reader and lookup')
CHECKS['C13'] = dict(
    category='other', design_ref='DESIGN.md §C13',
    text='Frame obligations for every function of the library and the WSGI file (writes to non-local state must be in the modifies clause, empty '
         'except for the memo caches), memo-cache shape obligations (value a function of the key alone), freshness of what NumDB._find returns, '
         'and a bounded dynamic test that mutates returned containers in place. Sequential histories only.',
    note='THREAD SCHEDULES ARE NOT DECIDED: contracts have no concurrency semantics here; atomicity of dict operations and the import lock under '
         'the GIL is an explicit assumption. The freshness analysis is syntactic.',
    technique='write-effect (frame) analysis on the real ASTs + cache-shape obligations + bounded aliasing test')
CHECKS['C18'] = dict(
    category='other', design_ref='DESIGN.md §C18',
    text='Contracts on the WSGI functions decided on their ASTs: status literal 200 on every response, the result list is the is_valid() '
         'comprehension, escape-taint obligation on every HTML interpolation, typing obligation of html.escape on conversions (derived from how '
         'format() passes them), template keys; plus a bounded native run of the real application over corpus and hostile queries.',
    note='urllib.parse, json, html trusted. Availability of is_valid/compact/format on valid numbers is taken from C01/C04; their known findings '
         '(int() limit) show up here as a listed finding.',
    technique='AST contracts (typing, taint) + return-kind inference + bounded replay through the real application')
CHECKS['C05'] = dict(
    category='proof', design_ref='DESIGN.md §C05',
    text='The generator / payload / check-position relation is read off the comparison in validate() (or, where validate() has none, from the '
         'usual conventions confirmed on the corpus). On every accepting path of validate(): the generated character is the one present, the '
         'generator does not depend on it, and replacing it by any other alphanumeric character makes the symbolic re-run of validate() raise on '
         'every path.',
    note='Completion (payload + generated check is never a checksum error) is a symbolic obligation for the lengths at which the relation was '
         'established on the accepting paths (alphanumeric canonical payloads), plus a bounded run on mutated corpus payloads. Formats with documented '
         'alternative check characters are exempt from the alteration obligation. ' + _VF_NOTE,
    technique='symbolic closures (generator, altered re-validation) under each accepting path condition, z3')
CHECKS['C07'] = dict(
    category='proof', design_ref='DESIGN.md §C07',
    text='validate() of 18 international identifier modules and an independent transcription of the published rules (contracts/specs.py) are '
         'executed symbolically on the same unknown input in one path context, per compact length 0..40 and for the tail; every joint path must have '
         'the same outcome and canonical form.',
    note='Lengths whose joint exploration exceeds the budget (ISIN, CUSIP, FIGI, SEDOL, most IBAN lengths in the quick tier) are undecided and '
         'covered by a bounded differential on corpus neighbours; Bitcoin is bounded only. The specs share compact(), registries, country lists and '
         'the ISO 7064 algorithms (C06) with the library. Whether the transcription is the right reading of a standard is outside any tool.',
    technique='relational symbolic execution of code and spec function, z3')
CHECKS['C08'] = dict(
    category='proof', design_ref='DESIGN.md §C08',
    text='A catalogue of the converters of the library (to_isin, to_iban, to_isbn13/10, to_ean, to_vat, to_base10/32, ... discovered from the '
         'AST and listed with their target module, embedding relation and inverse). On every accepting path of the source validate() the converter '
         'is executed symbolically; the target validate() must accept its result on every path, the result must embed the source number as the '
         'catalogue states, and the inverse converter (where one exists) must give the source number back.',
    note='Converters whose joint exploration exceeds the budget (SEDOL/WKN/CUSIP to_isin through the ISIN letter expansion, it.aic base-32, the '
         'ISBN inverse across lengths) are undecided and covered by a bounded native run over the corpus, synthesised valid numbers and separated '
         'presentations. ' + _VF_NOTE,
    technique='symbolic closures (converter, target validate, inverse) under each accepting path condition, z3')
CHECKS['C12'] = dict(
    category='proof', design_ref='DESIGN.md §C12',
    text='Every getter discovered mechanically is executed symbolically on the value of every accepting path of validate(), with a universally '
         'quantified system date: it returns or raises a ValidationError; a returned date agrees with get_birth_year/month and, for eighteen formats '
         'with an unambiguous layout (contracts/birthdates.py), with the date digits and century marker of the number; gender is M/F; split() '
         'parts concatenate to the number.',
    note='Getters that look up large registries are undecided (contract needed) and covered by the corpus run only. ' + _VF_NOTE,
    technique='symbolic closures under accepting path conditions, builtin contracts (datetime.date), z3')
CHECKS['C16'] = dict(
    category='other', design_ref='DESIGN.md §C16',
    text='Codec lemmas per (format, type) of the GS1 registry: str/int codecs executed symbolically for every admitted length, date and decimal '
         'codecs evaluated exhaustively (or on a dense sample) on the real functions; the padded form of every variable-length str/int element '
         '(decode(pad(encode(v))) == v); framing lemmas (prefix-free AI set, fixed elements encoded at full length). Level other because the composition of several elements is bounded (pairs in both orders, hand-built strings, separators).',
    note='Composition is a bounded stand-in. Formats the library cannot size (C11 findings) are excluded from composition.',
    technique='symbolic codec lemmas + exhaustive evaluation + bounded composition')
CHECKS['C17'] = dict(
    category='proof', design_ref='DESIGN.md §C17',
    text='On every accepting path of validate() of the listed modules, for every position a fresh same-class character (or the swap of two adjacent '
         'different digits, where claimed) is substituted and validate() is re-run symbolically: every path must raise. The C06 theorems are the '
         'contract of the generic checksum() functions, so the obligation for delegating formats is the structural one.',
    note='Positions where z3 stays unknown within the budget are undecided (mostly the hybrid Mod 11-10 formats) and covered by the exhaustive '
         'neighbourhood of corpus numbers (bounded). ' + _VF_NOTE,
    technique='relational symbolic closures + C06 lemmas as callee contracts, z3')
PENDING = {
}
ALL = ['C%02d' % i for i in range(1, 19)]


def main():
    checks = []
    for pid in ALL:
        c = CHECKS.get(pid)
        if not c:
            continue
        checks.append(dict(
            property_id=pid, quick_cmd='./check %s --tier quick' % pid, thorough_cmd='./check %s --tier thorough' % pid,
            evidence_file='evidence/%s.json' % pid, replay_cmd_template='./check %s --replay {path}' % pid, engine='pyvc',
            level_claimed=dict(category=c['category'], text=c['text'], design_ref=c['design_ref']),
            level_note=c['note'], technique=c['technique']))
    na = [dict(property_id=p, reason=PENDING.get(p, 'check not built yet in this round (work in progress, see DESIGN.md)'))
          for p in ALL if p not in CHECKS]
    m = dict(
        version=1, setup_cmd='./setup.sh',
        hooks=dict(guard='PYTHON_STDNUM_VERIF', enable='none needed: contracts are sidecar files under /verif, /repo is read, never edited by a check',
                   baseline_off_cmd='cd /repo && /venv/bin/python -m pytest -ra -q -p no:cacheprovider --timeout=900 --continue-on-collection-errors',
                   source_commits=[], add_only=True),
        engines=[dict(name='pyvc', path='pyvc/', serves_properties=sorted(CHECKS),
                      kind_free_text='own verification-condition generator: ast -> symbolic executor with contracts (interval domain + z3), '
                                     're-reading the real source of /repo on every run; Lean 4 for induction schemas')],
        checks=checks, notes='see DESIGN.md; known findings in known_findings.json', not_applicable=na)
    with open('MANIFEST.json', 'w') as f:
        json.dump(m, f, indent=1)


if __name__ == '__main__':
    main()
